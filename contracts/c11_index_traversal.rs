// Contract file for unit c11_index_traversal (property C11): ParsedValue::index_strings -- the traversal
// that applies StringIndexer::push_str / Literal::index_strings to every string literal of a value.
use vstd::prelude::*;
use vstd::std_specs::hash::*;
use vstd::std_specs::iter::IteratorSpec;
use std::collections::HashMap;
verus! {

// ---- R1 shims ----
#[verifier::external_body] pub struct Key { _p: u8 }
#[verifier::external_body] pub struct Formatter { _p: u8 }
#[verifier::external_body] pub struct ForeignKeyCell { _p: u8 }   // RefCell<ForeignKey>: never entered by this function
#[verifier::external_body] pub struct Locale { _p: u8 }
pub use core::ops::Bound;
#[verifier::external_body] pub struct Plurals { _p: u8 }

// T1 + R2: parse_locales/mod.rs
//@@ indexer_struct
impl StringIndexer {
    pub open spec fn table(&self) -> Seq<Seq<char>> { Seq::new(self.acc@.len(), |i: int| self.acc@[i]@) }
    pub open spec fn wf(&self) -> bool {
        &&& obeys_key_model::<String>()
        &&& forall|i: int| 0 <= i < self.acc@.len() ==> self.current@.contains_key(#[trigger] self.acc@[i]) && self.current@[self.acc@[i]] == i
        &&& forall|k: String| self.current@.contains_key(k) ==> 0 <= #[trigger] self.current@[k] < self.acc@.len() && self.acc@[self.current@[k] as int] == k
    }
}

// T1: parsed_value.rs
//@@ literal_enum
//@@ range_enum
pub type RangesInner<T> = Vec<(Range<T>, ParsedValue)>;
//@@ untyped_enum
//@@ ranges_struct
//@@ parsed_value_enum

/// a string literal carries an index at which the table holds its text
pub open spec fn lit_ok(l: Literal, t: Seq<Seq<char>>) -> bool {
    match l { Literal::String(s, i) => i < t.len() && t[i as int] == s@, _ => true }
}
// plurals: Plurals::index_strings (BTreeMap::values_mut) is not verified; assumed to establish the same for
// every form it holds
pub uninterp spec fn plurals_ok(p: Plurals, t: Seq<Seq<char>>) -> bool;
pub axiom fn axiom_plurals_ok_mono(p: Plurals, t: Seq<Seq<char>>, t2: Seq<Seq<char>>)
    requires plurals_ok(p, t), t.is_prefix_of(t2), ensures plurals_ok(p, t2);

/// C11: every string literal reachable in the value carries an index at which `t` holds its text
pub open spec fn pv_ok(p: ParsedValue, t: Seq<Seq<char>>) -> bool
    decreases p
{
    match p {
        ParsedValue::Literal(l) => lit_ok(l, t),
        ParsedValue::Ranges(r) => match r.inner {
            UntypedRangesInner::I8(v) => forall|i: int| 0 <= i < v.len() ==> pv_ok((#[trigger] v[i]).1, t),
            UntypedRangesInner::I16(v) => forall|i: int| 0 <= i < v.len() ==> pv_ok((#[trigger] v[i]).1, t),
            UntypedRangesInner::I32(v) => forall|i: int| 0 <= i < v.len() ==> pv_ok((#[trigger] v[i]).1, t),
            UntypedRangesInner::I64(v) => forall|i: int| 0 <= i < v.len() ==> pv_ok((#[trigger] v[i]).1, t),
            UntypedRangesInner::U8(v) => forall|i: int| 0 <= i < v.len() ==> pv_ok((#[trigger] v[i]).1, t),
            UntypedRangesInner::U16(v) => forall|i: int| 0 <= i < v.len() ==> pv_ok((#[trigger] v[i]).1, t),
            UntypedRangesInner::U32(v) => forall|i: int| 0 <= i < v.len() ==> pv_ok((#[trigger] v[i]).1, t),
            UntypedRangesInner::U64(v) => forall|i: int| 0 <= i < v.len() ==> pv_ok((#[trigger] v[i]).1, t),
            UntypedRangesInner::F32(v) => forall|i: int| 0 <= i < v.len() ==> pv_ok((#[trigger] v[i]).1, t),
            UntypedRangesInner::F64(v) => forall|i: int| 0 <= i < v.len() ==> pv_ok((#[trigger] v[i]).1, t),
        },
        ParsedValue::Plurals(pl) => plurals_ok(pl, t),
        ParsedValue::Component { key, inner } => pv_ok(*inner, t),
        ParsedValue::Bloc(v) => forall|i: int| 0 <= i < v.len() ==> pv_ok(#[trigger] v[i], t),
        // no literal of their own at this stage (foreign keys are resolved and inlined before indexing)
        ParsedValue::Default | ParsedValue::ForeignKey(_) | ParsedValue::Variable { .. } | ParsedValue::Subkeys(_) => true,
    }
}

/// indices stay valid when the table only grows
pub proof fn lemma_pv_ok_mono(p: ParsedValue, t: Seq<Seq<char>>, t2: Seq<Seq<char>>)
    requires pv_ok(p, t), t.is_prefix_of(t2),
    ensures pv_ok(p, t2),
    decreases p
{
    match p {
        ParsedValue::Ranges(r) => { match r.inner {
            UntypedRangesInner::I8(v) => { assert forall|i: int| 0 <= i < v.len() implies pv_ok((#[trigger] v[i]).1, t2) by { lemma_pv_ok_mono(v[i].1, t, t2); } }
            UntypedRangesInner::I16(v) => { assert forall|i: int| 0 <= i < v.len() implies pv_ok((#[trigger] v[i]).1, t2) by { lemma_pv_ok_mono(v[i].1, t, t2); } }
            UntypedRangesInner::I32(v) => { assert forall|i: int| 0 <= i < v.len() implies pv_ok((#[trigger] v[i]).1, t2) by { lemma_pv_ok_mono(v[i].1, t, t2); } }
            UntypedRangesInner::I64(v) => { assert forall|i: int| 0 <= i < v.len() implies pv_ok((#[trigger] v[i]).1, t2) by { lemma_pv_ok_mono(v[i].1, t, t2); } }
            UntypedRangesInner::U8(v) => { assert forall|i: int| 0 <= i < v.len() implies pv_ok((#[trigger] v[i]).1, t2) by { lemma_pv_ok_mono(v[i].1, t, t2); } }
            UntypedRangesInner::U16(v) => { assert forall|i: int| 0 <= i < v.len() implies pv_ok((#[trigger] v[i]).1, t2) by { lemma_pv_ok_mono(v[i].1, t, t2); } }
            UntypedRangesInner::U32(v) => { assert forall|i: int| 0 <= i < v.len() implies pv_ok((#[trigger] v[i]).1, t2) by { lemma_pv_ok_mono(v[i].1, t, t2); } }
            UntypedRangesInner::U64(v) => { assert forall|i: int| 0 <= i < v.len() implies pv_ok((#[trigger] v[i]).1, t2) by { lemma_pv_ok_mono(v[i].1, t, t2); } }
            UntypedRangesInner::F32(v) => { assert forall|i: int| 0 <= i < v.len() implies pv_ok((#[trigger] v[i]).1, t2) by { lemma_pv_ok_mono(v[i].1, t, t2); } }
            UntypedRangesInner::F64(v) => { assert forall|i: int| 0 <= i < v.len() implies pv_ok((#[trigger] v[i]).1, t2) by { lemma_pv_ok_mono(v[i].1, t, t2); } }
        } }
        ParsedValue::Plurals(pl) => { axiom_plurals_ok_mono(pl, t, t2); }
        ParsedValue::Component { key, inner } => { lemma_pv_ok_mono(*inner, t, t2); }
        ParsedValue::Bloc(v) => {
            assert forall|i: int| 0 <= i < v.len() implies pv_ok(#[trigger] v[i], t2) by { lemma_pv_ok_mono(v[i], t, t2); }
        }
        _ => {}
    }
}

impl Literal {
    // contract proved in unit c11_string_indexer (cross-unit edge)
    #[verifier::external_body]
    pub fn index_strings(&mut self, strings: &mut StringIndexer)
        requires old(strings).wf(),
        ensures final(strings).wf(), old(strings).table().is_prefix_of(final(strings).table()),
            lit_ok(*final(self), final(strings).table()),
    { unimplemented!() }
}
/// every value of a branch list carries valid indices
pub open spec fn inner_ok<T>(v: Seq<(Range<T>, ParsedValue)>, t: Seq<Seq<char>>) -> bool {
    forall|i: int| 0 <= i < v.len() ==> pv_ok((#[trigger] v[i]).1, t)
}

// N1: hoisted nested fn of Ranges::index_strings
//@@ ranges_inner

impl Ranges {
//@@ ranges_index_strings
}
impl Plurals {
    #[verifier::external_body]
    pub fn index_strings(&mut self, strings: &mut StringIndexer)
        requires old(strings).wf(),
        ensures final(strings).wf(), old(strings).table().is_prefix_of(final(strings).table()),
            plurals_ok(*final(self), final(strings).table()),
    { unimplemented!() }
}

impl ParsedValue {
//@@ pv_index_strings
}

} // verus!
fn main() {}
