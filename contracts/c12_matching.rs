// Contract file for unit c12_matching (property C12): the subtag comparisons of leptos_i18n/src/langid.rs, proved for
// every value (the bounded Kani unit c12_kani_negotiation covers filter_matches / find_match and the slice equality).
// Specification text for /verif; function bodies at `//@@` markers are extracted from /repo.
use vstd::prelude::*;
use vstd::std_specs::cmp::PartialEqSpec;
verus! {

// T1 shims for icu_locid's types (assumptions): a language is a code with `und` = 0 and structural equality;
// scripts, regions and variants are codes; the identifier has the four public fields the functions read
#[derive(PartialEq, Eq, Clone, Copy, Structural)]
pub struct Language { pub code: u32 }
impl Language {
    pub open spec fn is_und(&self) -> bool { self.code == 0 }
    pub fn is_empty(&self) -> (r: bool) ensures r == self.is_und() { self.code == 0 }
}
#[derive(PartialEq, Eq, Clone, Copy, Structural)]
pub struct Script { pub code: u32 }
#[derive(PartialEq, Eq, Clone, Copy, Structural)]
pub struct Region { pub code: u32 }
#[derive(PartialEq, Eq, Clone, Copy, Structural)]
pub struct Variant { pub code: u32 }
pub struct LanguageIdentifier { pub language: Language, pub script: Option<Script>, pub region: Option<Region>, pub variants: Vec<Variant> }

//@@ lang_matches

//@@ subtag_matches

//@@ subtags_match

//@@ into_specificity

} // verus!
fn main() {}
