// Contract file for unit c04_find_value  (properties C04, C09).
// Everything in this file except the `//@@ <name>` markers is specification text written for
// /verif; the function bodies substituted at the markers are extracted from /repo on every run.
use vstd::prelude::*;
use std::collections::BTreeMap;
verus! {

// ---- R1 nominal shims: types the extracted functions only pass around (assumptions) ----
#[verifier::external_body]
pub struct ParsedValue { _p: u8 }
#[verifier::external_body]
pub struct KeyPath { _p: u8 }
#[verifier::external_body]
pub struct Key { _p: u8 }
impl Clone for Key { #[verifier::external_body] fn clone(&self) -> Key { unimplemented!() } }
impl Clone for KeyPath { #[verifier::external_body] fn clone(&self) -> KeyPath { unimplemented!() } }
pub assume_specification<T: Clone>[ <T as std::borrow::ToOwned>::to_owned ](x: &T) -> T;
// the variants of parse_locales::error::Error that the extracted functions construct
pub enum Error {
    CountArgNoMatch { locale: Key, key_path: KeyPath, foreign_key: KeyPath },
    ImpossibleRange(String),
    Other,
}
pub type Result<T> = core::result::Result<T, Box<Error>>;

// G1: the generic parameter is instantiated with i64.  `contains` below stays uninterpreted and
// `do_match` is used through its contract only, so nothing in these proofs depends on which of the
// ten numeric types T is; a concrete type is used (rather than an opaque one) so that edits which
// compare counts directly (`==`, `<`) still type-check and are decided instead of being "undecided".
pub type T = i64;

// T1: copied verbatim from ranges.rs (derive list rewritten)
//@@ range_enum
// assumed: the derived Clone of Range<T> is the structural clone
impl Clone for Range<T> { #[verifier::external_body] fn clone(&self) -> (c: Range<T>) ensures c == *self { unimplemented!() } }

pub use core::ops::Bound;
pub type RangesInner<T> = Vec<(Range<T>, ParsedValue)>;

// "the count specification contains the count" -- uninterpreted here; units c04_do_match_*
// and the Kani harnesses connect it to the real `Range::do_match`.
pub uninterp spec fn contains(r: Range<T>, n: T) -> bool;

impl Range<T> {
    #[verifier::external_body]
    fn do_match(&self, count: T) -> (r: bool)
        ensures r == contains(*self, count)
    { unimplemented!() }
}

// result of substituting `args` into a value: whatever ParsedValue::populate computes
pub uninterp spec fn populated(v: ParsedValue, args: BTreeMap<String, ParsedValue>) -> Result<ParsedValue>;

impl ParsedValue {
    #[verifier::external_body]
    pub fn populate(&self, args: &BTreeMap<String, ParsedValue>, foreign_key: &KeyPath, locale: &Key, key_path: &KeyPath) -> (r: Result<ParsedValue>)
        ensures r == populated(*self, *args)
    { unimplemented!() }
}

// "some declared branch contains the count"
pub open spec fn some_branch(v: RangesInner<T>, count: T) -> bool {
    exists|i: int| 0 <= i < v.len() && contains(#[trigger] v[i].0, count)
}

// the first declared branch that contains the count
pub open spec fn first_branch(v: RangesInner<T>, count: T, i: int) -> bool {
    &&& 0 <= i < v.len()
    &&& contains(v[i].0, count)
    &&& forall|j: int| 0 <= j < i ==> !contains(#[trigger] v[j].0, count)
}

//@@ find_value

//@@ populate_inner

// ---- the "impossible range" test at the end of Range::new, lifted (rule E3); T := i64, `s` = the range's text ----
pub assume_specification<X>[ <Box<X> as From<X>>::from ](t: X) -> (b: Box<X>) ensures *b == t;
/// Rust's meaning of "the range is empty" for a start and an end bound
pub open spec fn empty_range(start: Option<T>, end: Bound<T>) -> bool {
    match (start, end) {
        (Some(s), Bound::Excluded(e)) => e <= s,
        (Some(s), Bound::Included(e)) => e < s,
        _ => false,
    }
}
impl Range<T> {
//@@ impossible_range
}

} // verus!
fn main() {}
