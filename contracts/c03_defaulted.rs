// Contract file for unit c03_defaulted  (properties C03, C09).
// Specification text for /verif; function bodies at `//@@` markers are extracted from /repo.
use vstd::prelude::*;
use vstd::std_specs::hash::obeys_key_model;
use std::collections::{BTreeMap, BTreeSet, HashSet};

verus! {

// R1 shim: a locale name.  The real `Key` compares / orders / hashes by `name` only
// (utils/key.rs); the shim keeps exactly that identity as an abstract `id`.
#[derive(PartialEq, Eq, PartialOrd, Ord, Hash)]
pub struct Key { pub id: u64 }
// the real Clone is the derived one (Rc clone of the name): same identity
impl Clone for Key { fn clone(&self) -> (r: Key) ensures r == *self { Key { id: self.id } } }

// T1: copied verbatim (derive list dropped; fields made visible to the spec functions below)
//@@ defaulted_struct

// ------------------------------------------------------------------------------------------
// Specification, written from the property statement:
//   m = "locales in which this key is NOT defined  |->  the locale they inherit from"
//   the value used for locale k is that of the first locale on k's chain that is not in dom(m);
//   when the chain never leaves dom(m) (it loops) the default locale is used.
// ------------------------------------------------------------------------------------------
pub open spec fn walk(m: Map<Key, Key>, k: Key, n: nat) -> Key
    decreases n
{
    if n == 0 { k } else {
        let p = walk(m, k, (n - 1) as nat);
        if m.contains_key(p) { m[p] } else { p }
    }
}

pub open spec fn exits_at(m: Map<Key, Key>, k: Key, n: nat) -> bool {
    &&& !m.contains_key(walk(m, k, n))
    &&& forall|i: nat| i < n ==> m.contains_key(#[trigger] walk(m, k, i))
}

pub open spec fn hits(m: Map<Key, Key>, k: Key, n: nat, x: Key, i: nat) -> bool {
    i <= n && x == walk(m, k, i)
}

pub open spec fn resolves_to(m: Map<Key, Key>, d: Key, k: Key, r: Key) -> bool {
    &&& (forall|n: nat| exits_at(m, k, n) ==> r == walk(m, k, n))
    &&& ((forall|n: nat| !exits_at(m, k, n)) ==> r == d)
}

// the resolved locale as a function (unique by lemma_resolves_unique)
pub open spec fn resolved(m: Map<Key, Key>, d: Key, k: Key) -> Key {
    if exists|n: nat| exits_at(m, k, n) { walk(m, k, choose|n: nat| exits_at(m, k, n)) } else { d }
}

pub proof fn lemma_exit_unique(m: Map<Key, Key>, k: Key, a: nat, b: nat)
    requires exits_at(m, k, a), exits_at(m, k, b),
    ensures a == b,
{
    if a < b { assert(m.contains_key(walk(m, k, a))); }
    if b < a { assert(m.contains_key(walk(m, k, b))); }
}

pub proof fn lemma_resolves_unique(m: Map<Key, Key>, d: Key, k: Key, r: Key)
    requires resolves_to(m, d, k, r),
    ensures r == resolved(m, d, k),
{
    if exists|n: nat| exits_at(m, k, n) {
        let n = choose|n: nat| exits_at(m, k, n);
        assert(r == walk(m, k, n));
    }
}

// all steps up to n stay inside dom(m), and step n+1 lands on an earlier element: never exits
pub proof fn lemma_cycle(m: Map<Key, Key>, k: Key, n: nat, j: nat, t: nat)
    requires
        j <= n,
        forall|i: nat| i <= n ==> m.contains_key(#[trigger] walk(m, k, i)),
        walk(m, k, n + 1) == walk(m, k, j),
    ensures
        m.contains_key(walk(m, k, t)),
        exists|i: nat| hits(m, k, n, walk(m, k, t), i),
    decreases t
{
    if t == 0 {
        assert(hits(m, k, n, walk(m, k, 0), 0));
    } else {
        lemma_cycle(m, k, n, j, (t - 1) as nat);
        let p = walk(m, k, (t - 1) as nat);
        let i = choose|i: nat| hits(m, k, n, p, i);
        assert(walk(m, k, t) == walk(m, k, i + 1));
        if i < n {
            assert(hits(m, k, n, walk(m, k, t), i + 1));
        } else {
            assert(walk(m, k, i + 1) == walk(m, k, j));
            assert(hits(m, k, n, walk(m, k, t), j));
        }
    }
}

// the chain exits at n: that locale is the resolved one
pub proof fn lemma_exit_resolved(m: Map<Key, Key>, d: Key, k: Key, n: nat)
    requires exits_at(m, k, n),
    ensures resolved(m, d, k) == walk(m, k, n),
{
    let c = choose|c: nat| exits_at(m, k, c);
    lemma_exit_unique(m, k, n, c);
}

// every locale up to step n is in dom(m): if step n+1 lands on one of them the chain loops for ever
// and the default locale is the resolved one
pub proof fn lemma_step(m: Map<Key, Key>, d: Key, k: Key, n: nat)
    requires forall|i: nat| i <= n ==> m.contains_key(#[trigger] walk(m, k, i)),
    ensures forall|j: nat| j <= n && walk(m, k, n + 1) == #[trigger] walk(m, k, j) ==> resolved(m, d, k) == d,
{
    assert forall|j: nat| j <= n && walk(m, k, n + 1) == #[trigger] walk(m, k, j) implies resolved(m, d, k) == d by {
        assert forall|t: nat| !exits_at(m, k, t) by {
            lemma_cycle(m, k, n, j, t);
        }
    }
}

// a duplicate-free listing of at least the keys of m, of length |dom m|, lists exactly dom m
pub proof fn lemma_seq_exact<K>(s: Seq<K>, d: Set<K>)
    requires s.no_duplicates(), s.len() == d.len(),
        forall|k: K| d.contains(k) ==> s.contains(k),
    ensures forall|i: int| 0 <= i < s.len() ==> d.contains(#[trigger] s[i]),
{
    s.unique_seq_to_set();
    assert(d.subset_of(s.to_set())) by {
        assert forall|k: K| d.contains(k) implies s.to_set().contains(k) by { assert(s.contains(k)); }
    }
    vstd::set_lib::lemma_subset_equality(d, s.to_set());
    assert forall|i: int| 0 <= i < s.len() implies d.contains(#[trigger] s[i]) by {
        assert(s.contains(s[i]));
        assert(s.to_set().contains(s[i]));
    }
}
pub proof fn lemma_keys_exact(r: Seq<&Key>, m: Map<Key, Key>)
    requires r.no_duplicates(), r.len() == m.dom().len(),
        forall|k: Key| m.contains_key(k) ==> r.contains(&k),
    ensures forall|i: int| 0 <= i < r.len() ==> m.contains_key(*#[trigger] r[i]),
{
    let s = r.map_values(|k: &Key| *k);
    assert forall|k: Key| m.dom().contains(k) implies s.contains(k) by {
        assert(r.contains(&k));
        let i = choose|i: int| 0 <= i < r.len() && r[i] == &k;
        assert(s[i] == k);
    }
    assert(s.no_duplicates()) by {
        assert forall|i: int, j: int| 0 <= i < s.len() && 0 <= j < s.len() && i != j implies s[i] != s[j] by {
            assert(s[i] == *r[i] && s[j] == *r[j]);
        }
    }
    lemma_seq_exact::<Key>(s, m.dom());
    assert forall|i: int| 0 <= i < r.len() implies m.contains_key(*#[trigger] r[i]) by {
        assert(s[i] == *r[i]);
    }
}

// assumed std fact (vstd leaves it uninterpreted): looking a `&Key` up in a HashSet<&Key> by a
// borrowed `&Key` is ordinary membership
pub broadcast axiom fn axiom_ref_borrow(s: Set<&Key>, k: &Key)
    ensures #[trigger] vstd::std_specs::hash::set_contains_borrowed_key::<&Key, Key>(s, k) == s.contains(k);

impl DefaultedLocales {
//@@ new

//@@ push

//@@ default_of

//@@ default_of_inner

//@@ compute
}

// A1 (assumed std contract): `m.entry(k).or_default().insert(v)` on a BTreeMap<K, BTreeSet<V>>
// adds v to the set stored under k (an empty set when k was absent) and changes nothing else.
pub open spec fn groups(g: Map<Key, BTreeSet<Key>>, k: Key) -> Set<Key> {
    if g.contains_key(k) { g[k]@ } else { Set::empty() }
}
#[verifier::external_body]
pub fn btree_entry_or_default_insert(m: &mut BTreeMap<Key, BTreeSet<Key>>, k: Key, v: Key)
    ensures
        final(m)@.dom() == old(m)@.dom().insert(k),
        groups(final(m)@, k) == groups(old(m)@, k).insert(v),
        forall|o: Key| o != k ==> groups(final(m)@, o) == groups(old(m)@, o),
{
    m.entry(k).or_default().insert(v);
}

//@@ default_to_enum

//@@ get_key_impl

} // verus!
fn main() {}
