// Contract file for unit c04_count_arg (property C04): Ranges::populate_with_count_arg -- a count fixed
// in the translation file (`$t(key, {"count": N})`) selects the branch through find_value on the SAME
// count value, converted without loss to the range's numeric type, or is rejected.
use vstd::prelude::*;
use vstd::std_specs::convert::TryFromSpec;
use std::collections::BTreeMap;
use std::num::TryFromIntError;
verus! {

// ---- R1 shims ----
#[verifier::external_body] pub struct Key { _p: u8 }
impl Clone for Key { #[verifier::external_body] fn clone(&self) -> (r: Key) ensures r == *self { unimplemented!() } }
#[verifier::external_body] pub struct KeyPath { _p: u8 }
impl Clone for KeyPath { #[verifier::external_body] fn clone(&self) -> KeyPath { unimplemented!() } }
#[verifier::external_body] pub struct Formatter { _p: u8 }
pub assume_specification<T: Clone>[ <T as std::borrow::ToOwned>::to_owned ](x: &T) -> T;
pub assume_specification<T>[ <Box<T> as From<T>>::from ](t: T) -> (b: Box<T>) ensures *b == t;
pub use core::ops::Bound;

// T1 copies (derive lists reduced)
//@@ literal_enum
//@@ range_type_enum
//@@ range_enum
pub type RangesInner<T> = Vec<(Range<T>, ParsedValue)>;
//@@ untyped_enum
//@@ ranges_struct

// R1: the variants of ParsedValue this function distinguishes; every other variant falls into `Other`
pub enum ParsedValue {
    Literal(Literal),
    Variable { key: Key, formatter: Formatter },
    Bloc(Vec<ParsedValue>),
    Other,
}
// the variants of parse_locales::error::Error this function constructs (field lists verbatim)
pub enum Error {
    InvalidCountArg { locale: Key, key_path: KeyPath, foreign_key: KeyPath },
    InvalidCountArgType { locale: Key, key_path: KeyPath, foreign_key: KeyPath, input_type: RangeType, range_type: RangeType },
    CountArgOutsideRange { locale: Key, key_path: KeyPath, foreign_key: KeyPath, err: TryFromIntError },
    Other,
}
pub type Result<T> = core::result::Result<T, Box<Error>>;

pub trait RangeNumber: Copy {}
impl RangeNumber for i8 {} impl RangeNumber for i16 {} impl RangeNumber for i32 {} impl RangeNumber for i64 {}
impl RangeNumber for u8 {} impl RangeNumber for u16 {} impl RangeNumber for u32 {} impl RangeNumber for u64 {}
impl RangeNumber for f32 {} impl RangeNumber for f64 {}

/// what find_value returns for this branch list and this count (its contract -- first declared branch
/// containing the count, Err when none -- is proved in unit c04_find_value)
pub uninterp spec fn fv<T>(v: RangesInner<T>, count: T, args: BTreeMap<String, ParsedValue>) -> Result<ParsedValue>;

// assumed std fact: vstd specifies integer TryFrom for 13 of the 14 (u64|i64 -> other int) pairs this
// function uses, but not i64::try_from(u64); its documented meaning is stated here
pub axiom fn axiom_i64_try_from_u64(c: u64)
    ensures
        <i64 as TryFromSpec<u64>>::obeys_try_from_spec(),
        c <= i64::MAX as u64 ==> <i64 as TryFromSpec<u64>>::try_from_spec(c) == Ok::<i64, TryFromIntError>(c as i64),
        c > i64::MAX as u64 ==> <i64 as TryFromSpec<u64>>::try_from_spec(c) is Err;

// N1: hoisted nested items of populate_with_count_arg
#[verifier::external_body]
fn find_value<T: RangeNumber>(v: &RangesInner<T>, count: T, args: &BTreeMap<String, ParsedValue>, foreign_key: &KeyPath,
                              locale: &Key, key_path: &KeyPath) -> (r: Result<ParsedValue>)
    ensures r == fv(*v, count, *args)
{ unimplemented!() }

//@@ try_from

pub struct Plurals { _p: u8 }
impl Plurals {
    #[verifier::external_body]
    pub fn find_variable(values: &[ParsedValue], locale: &Key, key_path: &KeyPath, foreign_key: &KeyPath) -> Result<Key> { unimplemented!() }
}

/// renaming the count variable (a `{{ var }}` count argument): decided by populate_with_new_key
pub uninterp spec fn renamed(r: Ranges, new_key: Key, args: BTreeMap<String, ParsedValue>) -> Result<ParsedValue>;

pub open spec fn type_of(i: UntypedRangesInner) -> RangeType {
    match i {
        UntypedRangesInner::I8(_) => RangeType::I8,
        UntypedRangesInner::I16(_) => RangeType::I16,
        UntypedRangesInner::I32(_) => RangeType::I32,
        UntypedRangesInner::I64(_) => RangeType::I64,
        UntypedRangesInner::U8(_) => RangeType::U8,
        UntypedRangesInner::U16(_) => RangeType::U16,
        UntypedRangesInner::U32(_) => RangeType::U32,
        UntypedRangesInner::U64(_) => RangeType::U64,
        UntypedRangesInner::F32(_) => RangeType::F32,
        UntypedRangesInner::F64(_) => RangeType::F64,
    }
}
/// C04, parse-time selection: the branch for a literal count is the one find_value picks for the same
/// number in the range's own type; a number that is not a value of that type, or a literal kind the
/// range type does not take (float for an integer range, integer for a float range), is an error
pub open spec fn expected(r: Ranges, count_arg: ParsedValue, args: BTreeMap<String, ParsedValue>, res: Result<ParsedValue>) -> bool {
    match count_arg {
        ParsedValue::Literal(Literal::Float(c)) => match r.inner {
            UntypedRangesInner::F64(v) => res == fv(v, c, args),
            // (Verus leaves the f64 -> f32 cast unspecified: only "some f32 count" can be stated)
            UntypedRangesInner::F32(v) => exists|c32: f32| res == fv(v, c32, args),
            _ => res is Err,
        },
        ParsedValue::Literal(Literal::Unsigned(c)) => match r.inner {
            UntypedRangesInner::I8(v) => if (i8::MIN as int) <= (c as int) && (c as int) <= (i8::MAX as int) { res == fv(v, c as i8, args) } else { res is Err },
            UntypedRangesInner::I16(v) => if (i16::MIN as int) <= (c as int) && (c as int) <= (i16::MAX as int) { res == fv(v, c as i16, args) } else { res is Err },
            UntypedRangesInner::I32(v) => if (i32::MIN as int) <= (c as int) && (c as int) <= (i32::MAX as int) { res == fv(v, c as i32, args) } else { res is Err },
            UntypedRangesInner::I64(v) => if (i64::MIN as int) <= (c as int) && (c as int) <= (i64::MAX as int) { res == fv(v, c as i64, args) } else { res is Err },
            UntypedRangesInner::U8(v) => if (u8::MIN as int) <= (c as int) && (c as int) <= (u8::MAX as int) { res == fv(v, c as u8, args) } else { res is Err },
            UntypedRangesInner::U16(v) => if (u16::MIN as int) <= (c as int) && (c as int) <= (u16::MAX as int) { res == fv(v, c as u16, args) } else { res is Err },
            UntypedRangesInner::U32(v) => if (u32::MIN as int) <= (c as int) && (c as int) <= (u32::MAX as int) { res == fv(v, c as u32, args) } else { res is Err },
            UntypedRangesInner::U64(v) => if (u64::MIN as int) <= (c as int) && (c as int) <= (u64::MAX as int) { res == fv(v, c as u64, args) } else { res is Err },
            _ => res is Err,
        },
        ParsedValue::Literal(Literal::Signed(c)) => match r.inner {
            UntypedRangesInner::I8(v) => if (i8::MIN as int) <= (c as int) && (c as int) <= (i8::MAX as int) { res == fv(v, c as i8, args) } else { res is Err },
            UntypedRangesInner::I16(v) => if (i16::MIN as int) <= (c as int) && (c as int) <= (i16::MAX as int) { res == fv(v, c as i16, args) } else { res is Err },
            UntypedRangesInner::I32(v) => if (i32::MIN as int) <= (c as int) && (c as int) <= (i32::MAX as int) { res == fv(v, c as i32, args) } else { res is Err },
            UntypedRangesInner::I64(v) => if (i64::MIN as int) <= (c as int) && (c as int) <= (i64::MAX as int) { res == fv(v, c as i64, args) } else { res is Err },
            UntypedRangesInner::U8(v) => if (u8::MIN as int) <= (c as int) && (c as int) <= (u8::MAX as int) { res == fv(v, c as u8, args) } else { res is Err },
            UntypedRangesInner::U16(v) => if (u16::MIN as int) <= (c as int) && (c as int) <= (u16::MAX as int) { res == fv(v, c as u16, args) } else { res is Err },
            UntypedRangesInner::U32(v) => if (u32::MIN as int) <= (c as int) && (c as int) <= (u32::MAX as int) { res == fv(v, c as u32, args) } else { res is Err },
            UntypedRangesInner::U64(v) => if (u64::MIN as int) <= (c as int) && (c as int) <= (u64::MAX as int) { res == fv(v, c as u64, args) } else { res is Err },
            _ => res is Err,
        },
        ParsedValue::Literal(_) => res is Err,
        ParsedValue::Variable { key, .. } => res == renamed(r, key, args),
        ParsedValue::Bloc(_) => true,   // decided by Plurals::find_variable (not specified here)
        ParsedValue::Other => res is Err,
    }
}

impl Ranges {
    #[verifier::external_body]
    fn populate_with_new_key(&self, new_key: Key, args: &BTreeMap<String, ParsedValue>, foreign_key: &KeyPath, locale: &Key,
                             key_path: &KeyPath) -> (r: Result<ParsedValue>)
        ensures r == renamed(*self, new_key, *args)
    { unimplemented!() }

//@@ get_type

//@@ populate_with_count_arg
}

} // verus!
fn main() {}
