// Contract file for unit c20_datakey (property C20): the walk that derives the ICU data options from the
// builder keys -- find_used_datakey (leptos_i18n_build/src/datakey.rs) and TranslationsInfos::get_icu_keys_inner.
// Specification text for /verif; the bodies at the `//@@` markers are extracted from /repo on every run.
use vstd::prelude::*;
use vstd::std_specs::iter::IteratorSpec;
use std::collections::{BTreeMap, BTreeSet, HashSet};
verus! {

// ---- R1 shims: types the walk never looks into ----
#[derive(PartialEq, Eq, PartialOrd, Ord)]
pub struct Key { pub id: u64 }
impl Clone for Key { fn clone(&self) -> (r: Key) ensures r == *self { Key { id: self.id } } }
#[verifier::external_body] pub struct DefaultedLocales { _p: u8 }
#[verifier::external_body] pub struct Locale { _p: u8 }
#[derive(Clone, Copy, PartialEq, Eq, PartialOrd, Ord)] pub struct GroupingStrategy { pub id: u8 }
#[derive(Clone, Copy, PartialEq, Eq, PartialOrd, Ord)] pub struct DateLength { pub id: u8 }
#[derive(Clone, Copy, PartialEq, Eq, PartialOrd, Ord)] pub struct TimeLength { pub id: u8 }
#[derive(Clone, Copy, PartialEq, Eq, PartialOrd, Ord)] pub struct ListType { pub id: u8 }
#[derive(Clone, Copy, PartialEq, Eq, PartialOrd, Ord)] pub struct ListStyle { pub id: u8 }
#[derive(Clone, Copy, PartialEq, Eq, PartialOrd, Ord)] pub struct CurrencyWidth { pub id: u8 }
#[derive(Clone, Copy, PartialEq, Eq, PartialOrd, Ord)] pub struct CurrencyCode { pub id: u8 }

// T1 copies of the data types the walk reads
//@@ range_type_enum
//@@ range_or_plural_enum
//@@ formatter_enum
//@@ var_info_struct
//@@ interpolation_keys_struct
//@@ literal_type_enum
//@@ interpol_or_lit_enum
//@@ locale_value_enum
//@@ builders_keys_inner_struct
//@@ namespace_struct
//@@ builders_keys_enum
//@@ options_enum
//@@ translations_infos_struct

/// vstd gives, for `BTreeSet::iter()`: no duplicates, as many items as elements, every element listed.
/// Lemma (proved): then every listed item is an element.
pub proof fn lemma_listed_is_member<T>(q: Seq<&T>, s: Set<T>)
    requires q.no_duplicates(), q.len() == s.len(), forall|x: T| s.contains(x) ==> q.contains(&x),
    ensures forall|i: int| 0 <= i < q.len() ==> s.contains(*#[trigger] q[i]),
{
    let q2 = Seq::new(q.len(), |i: int| *q[i]);
    assert(q2.no_duplicates());
    q2.unique_seq_to_set();
    assert forall|x: T| s.contains(x) implies q2.to_set().contains(x) by {
        assert(q.contains(&x));
        let i = choose|i: int| 0 <= i < q.len() && q[i] == &x;
        assert(q2[i] == x);
    }
    vstd::set_lib::lemma_subset_equality(s, q2.to_set());
    assert forall|i: int| 0 <= i < q.len() implies s.contains(*#[trigger] q[i]) by {
        assert(q2[i] == *q[i]);
        assert(q2.to_set().contains(q2[i]));
    }
}

// ---- the property's words, written from the statement ----
/// the data family a formatter needs (none for the plain `{{ var }}` formatter)
pub open spec fn fmt_opt(f: Formatter) -> Option<Options> {
    match f {
        Formatter::None => None,
        Formatter::Number(_) => Some(Options::FormatNums),
        Formatter::Date(_) | Formatter::Time(_) | Formatter::DateTime(_, _) => Some(Options::FormatDateTime),
        Formatter::List(_, _) => Some(Options::FormatList),
        Formatter::Currency(_, _) => Some(Options::FormatCurrency),
    }
}
/// a variable uses plural data iff it is the count of a plural, and a formatter family iff one of its
/// formatters belongs to that family
pub open spec fn var_uses(v: VarInfo, o: Options) -> bool {
    (o == Options::Plurals && v.range_count == Some(RangeOrPlural::Plural))
    || exists|f: Formatter| v.formatters@.contains(f) && fmt_opt(f) == Some(o)
}
/// "some key at any subkey depth uses o"
pub open spec fn value_uses(lv: LocaleValue, o: Options) -> bool
    decreases lv
{
    match lv {
        LocaleValue::Value { value: InterpolOrLit::Lit(_), .. } => false,
        LocaleValue::Value { value: InterpolOrLit::Interpol(ik), .. } =>
            exists|k: Key| ik.variables@.contains_key(k) && var_uses(#[trigger] ik.variables@[k], o),
        LocaleValue::Subkeys { keys, .. } =>
            exists|k: Key| keys.0@.contains_key(k) && value_uses(#[trigger] keys.0@[k], o),
    }
}
pub open spec fn keys_use(keys: BuildersKeysInner, o: Options) -> bool {
    exists|k: Key| keys.0@.contains_key(k) && value_uses(#[trigger] keys.0@[k], o)
}
/// "... in any namespace"
pub open spec fn builders_use(b: BuildersKeys, o: Options) -> bool {
    match b {
        BuildersKeys::NameSpaces { keys, .. } => exists|ns: Key| keys@.contains_key(ns) && keys_use(#[trigger] keys@[ns], o),
        BuildersKeys::Locales { keys, .. } => keys_use(keys, o),
    }
}

impl InterpolationKeys {
// body pinned (rule I4), not verified: external_body
//@@ iter_vars_pin
}

pub mod datakey {
use super::*;
//@@ find_used_datakey
}

impl TranslationsInfos {
//@@ get_icu_keys_inner

// E3: the first two statements of get_icu_keys, lifted (the third hands the set to datakey::get_keys)
//@@ used_options
}

} // verus!
fn main() {}
