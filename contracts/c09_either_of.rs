// Contract file for unit c09_either_of (property C09): code generation run on accepted input does
// not panic or loop -- the wrapper used for "one of N locales / branches" views.
use vstd::prelude::*;
verus! {

// R1 shims: token types are opaque.  M1: quote!/format_ident! calls are replaced by calls of the
// opaque total functions below (assumption: the macros themselves do not panic).
#[verifier::external_body] pub struct TokenStream { _p: u8 }
#[verifier::external_body] pub struct Ident { _p: u8 }
pub mod syn { pub use super::Ident; }
impl TokenStream { #[verifier::external_body] pub fn into_token_stream(self) -> TokenStream { unimplemented!() } }
#[verifier::external_body] pub fn tok<A>(a: A) -> TokenStream { unimplemented!() }
#[verifier::external_body] pub fn ident_from<A>(a: A) -> Ident { unimplemented!() }
// G1: `T: ToTokens` instantiated with the token stream itself
pub type T = TokenStream;

// T1: copied verbatim (derive list dropped)
//@@ wrapper_enum

/// number of alternatives the wrapper can distinguish (`Multiple` only records the ident; new()
/// creates it for 3..=16, hence the bound used for index safety is 16 when nothing else is known)
pub open spec fn arity(w: EitherOfWrapper) -> nat
    decreases w
{
    match w {
        EitherOfWrapper::Single => 1,
        EitherOfWrapper::Duo => 2,
        EitherOfWrapper::Multiple(_) => 16,
        EitherOfWrapper::Nested(b) => 15 + arity(*b),
    }
}

impl EitherOfWrapper {
//@@ new

//@@ wrap
}

} // verus!
fn main() {}
