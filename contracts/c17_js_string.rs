// Contract file for unit c17_js_string (properties C17, C09).
// Specification text for /verif; function bodies at `//@@` markers are extracted from /repo.
use vstd::prelude::*;
verus! {

//@INCLUDE json_spec.inc

/// what the page-embedding writer emits for one character: JSON escaping, plus everything that
/// could end the <script> element ('<') or the string literal (U+2028 / U+2029 line terminators)
pub open spec fn sesc_char(c: char) -> Seq<char> {
    if c == '"' { seq!['\\', '"'] }
    else if c == '\\' { seq!['\\', '\\'] }
    else if c == '<' { seq!['\\', 'u', '0', '0', '3', 'C'] }
    else if c == '\u{2028}' { seq!['\\', 'u', '2', '0', '2', '8'] }
    else if c == '\u{2029}' { seq!['\\', 'u', '2', '0', '2', '9'] }
    else if (c as int) < 0x20 { seq!['\\', 'u', '0', '0', hex_digit_spec((c as int) / 16), hex_digit_spec((c as int) % 16)] }
    else { seq![c] }
}

pub open spec fn sesc(s: Seq<char>) -> Seq<char>
    decreases s.len()
{
    if s.len() == 0 { Seq::empty() } else { sesc_char(s[0]) + sesc(s.skip(1)) }
}

pub proof fn lemma_sesc_concat(a: Seq<char>, b: Seq<char>)
    ensures sesc(a + b) =~= sesc(a) + sesc(b)
    decreases a.len()
{
    if a.len() == 0 {
        assert(a + b =~= b);
    } else {
        assert((a + b).skip(1) =~= a.skip(1) + b);
        assert((a + b)[0] == a[0]);
        lemma_sesc_concat(a.skip(1), b);
    }
}

pub proof fn lemma_sesc_push(s: Seq<char>, c: char)
    ensures sesc(s.push(c)) =~= sesc(s) + sesc_char(c)
{
    lemma_sesc_concat(s, seq![c]);
    assert(s.push(c) =~= s + seq![c]);
    assert(seq![c].skip(1) =~= Seq::<char>::empty());
    assert(sesc(seq![c]) =~= sesc_char(c) + sesc(Seq::<char>::empty()));
}

/// C17: the decoded value of the emitted literal is exactly the string, for every text
pub proof fn lemma_roundtrip(s: Seq<char>)
    ensures junesc(sesc(s)) == Some(s)
    decreases s.len()
{
    if s.len() == 0 {
    } else {
        let c = s[0];
        let rest = s.skip(1);
        lemma_roundtrip(rest);
        let e = sesc(s);
        assert(e == sesc_char(c) + sesc(rest));
        assert(seq![c] + rest =~= s);
        if c == '"' || c == '\\' {
            assert(e.skip(2) =~= sesc(rest));
        } else if c == '<' {
            assert(e.skip(6) =~= sesc(rest));
            assert(hex_val('3') == Some(3int) && hex_val('C') == Some(12int) && hex_val('0') == Some(0int));
            assert((0 * 4096 + 0 * 256 + 3 * 16 + 12) as char == '<');
        } else if c == '\u{2028}' {
            assert(e.skip(6) =~= sesc(rest));
            assert(hex_val('2') == Some(2int) && hex_val('8') == Some(8int) && hex_val('0') == Some(0int));
            assert((2 * 4096 + 0 * 256 + 2 * 16 + 8) as char == '\u{2028}');
        } else if c == '\u{2029}' {
            assert(e.skip(6) =~= sesc(rest));
            assert(hex_val('2') == Some(2int) && hex_val('9') == Some(9int) && hex_val('0') == Some(0int));
            assert((2 * 4096 + 0 * 256 + 2 * 16 + 9) as char == '\u{2029}');
        } else if (c as int) < 0x20 {
            lemma_hex((c as int) / 16);
            lemma_hex((c as int) % 16);
            assert(e.skip(6) =~= sesc(rest));
            assert(e[2] == '0' && e[3] == '0');
            let v = 0 * 4096 + 0 * 256 + ((c as int) / 16) * 16 + (c as int) % 16;
            assert(v == c as int);
            assert(v as char == c);
        } else {
            assert(e.skip(1) =~= sesc(rest));
        }
    }
}

/// C17: the emitted text cannot close the script element or leave the string literal:
/// no '<' at all (hence no `</script`, no `<!--`), no control character, no U+2028/U+2029,
/// and a quote only directly after a backslash
pub proof fn lemma_script_safe(s: Seq<char>, i: int)
    requires 0 <= i < sesc(s).len()
    ensures
        sesc(s)[i] != '<',
        (sesc(s)[i] as int) >= 0x20,
        sesc(s)[i] != '\u{2028}' && sesc(s)[i] != '\u{2029}',
        sesc(s)[i] == '"' ==> i > 0 && sesc(s)[i - 1] == '\\',
    decreases s.len()
{
    if s.len() == 0 {
    } else {
        let c = s[0];
        let head = sesc_char(c);
        let tail = sesc(s.skip(1));
        assert(sesc(s) == head + tail);
        if i < head.len() {
            if (c as int) < 0x20 && c != '"' && c != '\\' {
                assert(0 <= (c as int) / 16 < 16);
                assert(0 <= (c as int) % 16 < 16);
            }
        } else {
            lemma_script_safe(s.skip(1), i - head.len());
            if tail[i - head.len()] == '"' {
                assert(i - head.len() > 0);
            }
        }
    }
}

/// one JavaScript string literal
pub open spec fn sstr(s: Seq<char>) -> Seq<char> { seq!['"'] + sesc(s) + seq!['"'] }

//@@ hex_digit

//@@ push_js_string

// ---- shims for the lifted loop body of RegisterCtx::to_array (rule E3) ----
// the two trait methods the body calls; what they return is the (assumed identifier-charset) name
pub trait Locale: Copy {
    spec fn name(self) -> Seq<char>;
    fn as_str(self) -> (r: &'static str) ensures r@ == self.name();
}
pub trait TranslationUnitId: Copy {
    spec fn id_name(self) -> Option<Seq<char>>;
    fn to_str(self) -> (r: Option<&'static str>)
        ensures r is Some <==> self.id_name() is Some, r matches Some(x) ==> x@ == self.id_name()->0;
}
pub assume_specification<T>[ std::mem::replace::<T> ](dest: &mut T, src: T) -> (r: T)
    ensures r == *old(dest), *final(dest) == src;

/// the first n strings of a unit, as script-safe literals separated by commas
pub open spec fn joined(vals: Seq<&'static str>, n: int) -> Seq<char>
    decreases n
{
    if n <= 0 { Seq::empty() }
    else if n == 1 { sstr(vals[0]@) }
    else { joined(vals, n - 1) + seq![','] + sstr(vals[n - 1]@) }
}
pub open spec fn lit(s: &str) -> Seq<char> { s@ }
/// C17: what one registered translation unit contributes to the embedded array:
/// `{"locale":"<locale>","id":"<id>"|null,"values":[<its strings, in order>]}` preceded by a comma unless first
pub open spec fn unit_text<L: Locale, I: TranslationUnitId>(first: bool, locale: L, id: I, vals: Seq<&'static str>) -> Seq<char> {
    (if first { Seq::<char>::empty() } else { seq![','] })
    + lit("{\"locale\":\"") + locale.name()
    + (match id.id_name() { Some(n) => lit("\",\"id\":\"") + n + lit("\",\"values\":["), None => lit("\",\"id\":null,\"values\":[") })
    + joined(vals, vals.len() as int) + lit("]}")
}

//@@ emit_unit

} // verus!
fn main() {}
