// Contract file for unit c17_js_string (properties C17, C09).
// Specification text for /verif; function bodies at `//@@` markers are extracted from /repo.
use vstd::prelude::*;
use std::collections::HashMap;
verus! {

//@INCLUDE json_spec.inc

/// what the page-embedding writer emits for one character: JSON escaping, plus everything that
/// could end the <script> element ('<') or the string literal (U+2028 / U+2029 line terminators)
pub open spec fn sesc_char(c: char) -> Seq<char> {
    if c == '"' { seq!['\\', '"'] }
    else if c == '\\' { seq!['\\', '\\'] }
    else if c == '<' { seq!['\\', 'u', '0', '0', '3', 'C'] }
    else if c == '\u{2028}' { seq!['\\', 'u', '2', '0', '2', '8'] }
    else if c == '\u{2029}' { seq!['\\', 'u', '2', '0', '2', '9'] }
    else if (c as int) < 0x20 { seq!['\\', 'u', '0', '0', hex_digit_spec((c as int) / 16), hex_digit_spec((c as int) % 16)] }
    else { seq![c] }
}

pub open spec fn sesc(s: Seq<char>) -> Seq<char>
    decreases s.len()
{
    if s.len() == 0 { Seq::empty() } else { sesc_char(s[0]) + sesc(s.skip(1)) }
}

pub proof fn lemma_sesc_concat(a: Seq<char>, b: Seq<char>)
    ensures sesc(a + b) =~= sesc(a) + sesc(b)
    decreases a.len()
{
    if a.len() == 0 {
        assert(a + b =~= b);
    } else {
        assert((a + b).skip(1) =~= a.skip(1) + b);
        assert((a + b)[0] == a[0]);
        lemma_sesc_concat(a.skip(1), b);
    }
}

pub proof fn lemma_sesc_push(s: Seq<char>, c: char)
    ensures sesc(s.push(c)) =~= sesc(s) + sesc_char(c)
{
    lemma_sesc_concat(s, seq![c]);
    assert(s.push(c) =~= s + seq![c]);
    assert(seq![c].skip(1) =~= Seq::<char>::empty());
    assert(sesc(seq![c]) =~= sesc_char(c) + sesc(Seq::<char>::empty()));
}

/// C17: the decoded value of the emitted literal is exactly the string, for every text
pub proof fn lemma_roundtrip(s: Seq<char>)
    ensures junesc(sesc(s)) == Some(s)
    decreases s.len()
{
    if s.len() == 0 {
    } else {
        let c = s[0];
        let rest = s.skip(1);
        lemma_roundtrip(rest);
        let e = sesc(s);
        assert(e == sesc_char(c) + sesc(rest));
        assert(seq![c] + rest =~= s);
        if c == '"' || c == '\\' {
            assert(e.skip(2) =~= sesc(rest));
        } else if c == '<' {
            assert(e.skip(6) =~= sesc(rest));
            assert(hex_val('3') == Some(3int) && hex_val('C') == Some(12int) && hex_val('0') == Some(0int));
            assert((0 * 4096 + 0 * 256 + 3 * 16 + 12) as char == '<');
        } else if c == '\u{2028}' {
            assert(e.skip(6) =~= sesc(rest));
            assert(hex_val('2') == Some(2int) && hex_val('8') == Some(8int) && hex_val('0') == Some(0int));
            assert((2 * 4096 + 0 * 256 + 2 * 16 + 8) as char == '\u{2028}');
        } else if c == '\u{2029}' {
            assert(e.skip(6) =~= sesc(rest));
            assert(hex_val('2') == Some(2int) && hex_val('9') == Some(9int) && hex_val('0') == Some(0int));
            assert((2 * 4096 + 0 * 256 + 2 * 16 + 9) as char == '\u{2029}');
        } else if (c as int) < 0x20 {
            lemma_hex((c as int) / 16);
            lemma_hex((c as int) % 16);
            assert(e.skip(6) =~= sesc(rest));
            assert(e[2] == '0' && e[3] == '0');
            let v = 0 * 4096 + 0 * 256 + ((c as int) / 16) * 16 + (c as int) % 16;
            assert(v == c as int);
            assert(v as char == c);
        } else {
            assert(e.skip(1) =~= sesc(rest));
        }
    }
}

/// C17: the emitted text cannot close the script element or leave the string literal:
/// no '<' at all (hence no `</script`, no `<!--`), no control character, no U+2028/U+2029,
/// and a quote only directly after a backslash
pub proof fn lemma_script_safe(s: Seq<char>, i: int)
    requires 0 <= i < sesc(s).len()
    ensures
        sesc(s)[i] != '<',
        (sesc(s)[i] as int) >= 0x20,
        sesc(s)[i] != '\u{2028}' && sesc(s)[i] != '\u{2029}',
        sesc(s)[i] == '"' ==> i > 0 && sesc(s)[i - 1] == '\\',
    decreases s.len()
{
    if s.len() == 0 {
    } else {
        let c = s[0];
        let head = sesc_char(c);
        let tail = sesc(s.skip(1));
        assert(sesc(s) == head + tail);
        if i < head.len() {
            if (c as int) < 0x20 && c != '"' && c != '\\' {
                assert(0 <= (c as int) / 16 < 16);
                assert(0 <= (c as int) % 16 < 16);
            }
        } else {
            lemma_script_safe(s.skip(1), i - head.len());
            if tail[i - head.len()] == '"' {
                assert(i - head.len() > 0);
            }
        }
    }
}

/// one JavaScript string literal
pub open spec fn sstr(s: Seq<char>) -> Seq<char> { seq!['"'] + sesc(s) + seq!['"'] }

// ---- the emitted `[ "..", ".." ]` parses (scanner `jarray` of json_spec.inc, written from RFC 8259 section 7; every
// escape the writer uses is also a JavaScript string escape with the same meaning) as exactly the strings ----
pub open spec fn sarray_body(strs: Seq<Seq<char>>, n: int) -> Seq<char>
    decreases n
{
    if n <= 0 { Seq::empty() }
    else if n == 1 { sstr(strs[0]) }
    else { sarray_body(strs, n - 1) + seq![','] + sstr(strs[n - 1]) }
}
/// scanning an escaped text followed by a quote gives the text back and stops after the quote
pub proof fn lemma_scan(pre: Seq<char>, x: Seq<char>, post: Seq<char>)
    ensures jscan(pre + sesc(x) + seq!['"'] + post, pre.len() as int) == Some((x, (pre.len() + sesc(x).len() + 1) as int)),
    decreases x.len()
{
    hide(jscan);
    let s = pre + sesc(x) + seq!['"'] + post;
    let i = pre.len() as int;
    if x.len() == 0 {
        assert(sesc(x) =~= Seq::<char>::empty());
        assert(s[i] == '"');
        lemma_jscan_quote(s, i);
    } else {
        let c = x[0];
        let rest = x.skip(1);
        let e = sesc_char(c);
        assert(sesc(x) == e + sesc(rest));
        let pre2 = pre + e;
        assert(pre2 + sesc(rest) + seq!['"'] + post =~= s);
        lemma_scan(pre2, rest, post);
        assert(seq![c] + rest =~= x);
        assert(forall|k: int| 0 <= k < e.len() ==> s[i + k] == e[k]);
        if c == '"' || c == '\\' {
            assert(s[i] == '\\' && s[i + 1] == c);
            lemma_jscan_pair(s, i);
        } else if c == '<' {
            assert(s[i] == '\\' && s[i + 1] == 'u' && s[i + 2] == '0' && s[i + 3] == '0' && s[i + 4] == '3' && s[i + 5] == 'C');
            assert(hex_val('3') == Some(3int) && hex_val('C') == Some(12int) && hex_val('0') == Some(0int));
            assert((0 * 4096 + 0 * 256 + 3 * 16 + 12) as char == '<');
            lemma_jscan_u(s, i, 0, 0, 3, 12);
        } else if c == '\u{2028}' {
            assert(s[i] == '\\' && s[i + 1] == 'u' && s[i + 2] == '2' && s[i + 3] == '0' && s[i + 4] == '2' && s[i + 5] == '8');
            assert(hex_val('2') == Some(2int) && hex_val('8') == Some(8int) && hex_val('0') == Some(0int));
            assert((2 * 4096 + 0 * 256 + 2 * 16 + 8) as char == '\u{2028}');
            lemma_jscan_u(s, i, 2, 0, 2, 8);
        } else if c == '\u{2029}' {
            assert(s[i] == '\\' && s[i + 1] == 'u' && s[i + 2] == '2' && s[i + 3] == '0' && s[i + 4] == '2' && s[i + 5] == '9');
            assert(hex_val('2') == Some(2int) && hex_val('9') == Some(9int) && hex_val('0') == Some(0int));
            assert((2 * 4096 + 0 * 256 + 2 * 16 + 9) as char == '\u{2029}');
            lemma_jscan_u(s, i, 2, 0, 2, 9);
        } else if (c as int) < 0x20 {
            lemma_hex((c as int) / 16);
            lemma_hex((c as int) % 16);
            assert(s[i] == '\\' && s[i + 1] == 'u' && s[i + 2] == '0' && s[i + 3] == '0');
            assert(s[i + 4] == hex_digit_spec((c as int) / 16) && s[i + 5] == hex_digit_spec((c as int) % 16));
            assert(hex_val('0') == Some(0int));
            let v = 0 * 4096 + 0 * 256 + ((c as int) / 16) * 16 + (c as int) % 16;
            assert(v == c as int);
            assert(v as char == c);
            lemma_jscan_u(s, i, 0, 0, (c as int) / 16, (c as int) % 16);
        } else {
            assert(s[i] == c);
            lemma_jscan_plain(s, i);
        }
    }
}

/// elements k..n joined by commas, then the closing bracket (as a parser consumes it: from the front)
pub open spec fn jtail(strs: Seq<Seq<char>>, k: int, n: int) -> Seq<char>
    decreases n - k
{
    if k >= n - 1 { sstr(strs[k]) + seq![']'] } else { sstr(strs[k]) + seq![','] + jtail(strs, k + 1, n) }
}
pub open spec fn sep_tail(strs: Seq<Seq<char>>, m: int, n: int) -> Seq<char> {
    if m >= n { seq![']'] } else { seq![','] + jtail(strs, m, n) }
}
pub proof fn lemma_body_tail(strs: Seq<Seq<char>>, m: int, n: int)
    requires 1 <= m <= n <= strs.len(),
    ensures sarray_body(strs, m) + sep_tail(strs, m, n) =~= jtail(strs, 0, n),
    decreases m
{
    if m == 1 {
    } else {
        lemma_body_tail(strs, m - 1, n);
        // sep_tail(m-1) = ',' + sstr(s[m-1]) + sep_tail(m)
        assert(sep_tail(strs, m - 1, n) =~= seq![','] + sstr(strs[m - 1]) + sep_tail(strs, m, n));
        assert(sarray_body(strs, m) =~= sarray_body(strs, m - 1) + seq![','] + sstr(strs[m - 1]));
    }
}
pub proof fn lemma_elems(pre: Seq<char>, strs: Seq<Seq<char>>, k: int, n: int)
    requires 0 <= k < n <= strs.len(),
    ensures jelems(pre + jtail(strs, k, n), pre.len() as int) == Some(strs.subrange(k, n)),
    decreases n - k
{
    hide(jscan); hide(sesc); hide(junesc);
    let s = pre + jtail(strs, k, n);
    let i = pre.len() as int;
    let x = strs[k];
    let after = if k >= n - 1 { seq![']'] } else { seq![','] + jtail(strs, k + 1, n) };
    assert(jtail(strs, k, n) =~= seq!['"'] + sesc(x) + seq!['"'] + after);
    let pre2 = pre + seq!['"'];
    assert(s =~= pre2 + sesc(x) + seq!['"'] + after);
    lemma_scan(pre2, x, after);
    let j = (pre2.len() + sesc(x).len() + 1) as int;
    assert(s[i] == '"');
    assert(jscan(s, i + 1) == Some((x, j)));
    assert(s[j] == after[0]);
    if k >= n - 1 {
        assert(j + 1 == s.len());
        assert(strs.subrange(k, n) =~= seq![x]);
    } else {
        let pre3 = pre2 + sesc(x) + seq!['"'] + seq![','];
        assert(s =~= pre3 + jtail(strs, k + 1, n));
        lemma_elems(pre3, strs, k + 1, n);
        assert(pre3.len() == j + 1);
        assert(strs.subrange(k, n) =~= seq![x] + strs.subrange(k + 1, n));
    }
}
/// C11: the text the writer builds for n strings parses as a JSON array of exactly those strings
pub proof fn lemma_array_roundtrip(strs: Seq<Seq<char>>, n: int)
    requires 0 <= n <= strs.len(),
    ensures jarray(seq!['['] + sarray_body(strs, n) + seq![']']) == Some(strs.subrange(0, n)),
{
    let s = seq!['['] + sarray_body(strs, n) + seq![']'];
    if n == 0 {
        assert(s =~= seq!['[', ']']);
        assert(strs.subrange(0, 0) =~= Seq::<Seq<char>>::empty());
    } else {
        lemma_body_tail(strs, n, n);
        assert(s =~= seq!['['] + jtail(strs, 0, n));
        lemma_elems(seq!['['], strs, 0, n);
        assert(sstr(strs[0]).len() >= 2);
        assert(s.len() > 2);
    }
}


//@@ hex_digit

//@@ push_js_string

// ---- shims for RegisterCtx::to_array ----
// the two trait methods the body calls; what they return is the (assumed identifier-charset) name
pub trait Locale: Copy + Eq + core::hash::Hash {
    type TranslationUnitId: TranslationUnitId;
    spec fn name(self) -> Seq<char>;
    fn as_str(self) -> (r: &'static str) ensures r@ == self.name();
    /// hands the strings of a unit to the generated code (client side); no effect on the emitted text
    fn init_translations(self, id: Self::TranslationUnitId, values: Vec<Box<str>>);
}
pub trait TranslationUnitId: Copy + Eq + core::hash::Hash {
    spec fn id_name(self) -> Option<Seq<char>>;
    fn to_str(self) -> (r: Option<&'static str>)
        ensures r is Some <==> self.id_name() is Some, r matches Some(x) ==> x@ == self.id_name()->0;
}
/// T1: model of `Arc<Mutex<T>>` as the body uses it: `lock()` hands out the protected value
/// (a poisoned lock -- another thread panicked while registering -- is outside the model)
pub struct Shared<T>(pub T);
impl<T> Shared<T> {
    pub fn lock(&self) -> (r: Option<&T>) ensures r == Some(&self.0) { Some(&self.0) }
}
// T1: copied from fetch_translations.rs, `Arc<Mutex<..>>` -> `Shared<..>`
pub type RegisterCtxMap<L, Id> = HashMap<(L, Id), &'static [&'static str]>;
pub struct RegisterCtx<L: Locale>(pub Shared<RegisterCtxMap<L, L::TranslationUnitId>>);
pub assume_specification<'a, 'b>[ <String as From<&'a str>>::from ](s: &'b str) -> (r: String)
    ensures r@ == s@;
pub assume_specification<T>[ std::mem::replace::<T> ](dest: &mut T, src: T) -> (r: T)
    ensures r == *old(dest), *final(dest) == src;

/// the first n strings of a unit, as script-safe literals separated by commas
pub open spec fn joined(vals: Seq<Seq<char>>, n: int) -> Seq<char>
    decreases n
{
    if n <= 0 { Seq::empty() }
    else if n == 1 { sstr(vals[0]) }
    else { joined(vals, n - 1) + seq![','] + sstr(vals[n - 1]) }
}
pub open spec fn lit(s: &str) -> Seq<char> { s@ }
/// C17: what one registered translation unit contributes to the embedded array:
/// `{"locale":"<locale>","id":"<id>"|null,"values":[<its strings, in order>]}` preceded by a comma unless first
pub open spec fn unit_text<L: Locale, I: TranslationUnitId>(first: bool, locale: L, id: I, vals: Seq<Seq<char>>) -> Seq<char> {
    (if first { Seq::<char>::empty() } else { seq![','] })
    + lit("{\"locale\":\"") + locale.name()
    + (match id.id_name() { Some(n) => lit("\",\"id\":\"") + n + lit("\",\"values\":["), None => lit("\",\"id\":null,\"values\":[") })
    + joined(vals, vals.len() as int) + lit("]}")
}

pub open spec fn str_views(vals: Seq<&'static str>) -> Seq<Seq<char>> { Seq::new(vals.len(), |i: int| vals[i]@) }
pub proof fn lemma_joined_is_array_body(vals: Seq<Seq<char>>, n: int)
    requires 0 <= n <= vals.len(),
    ensures joined(vals, n) == sarray_body(vals, n),
    decreases n
{
    if n >= 2 { lemma_joined_is_array_body(vals, n - 1); }
}
/// C17: the `"values":[ .. ]` array of a unit parses as exactly that unit's strings, in order
pub proof fn lemma_values_parse(vals: Seq<Seq<char>>)
    ensures jarray(seq!['['] + joined(vals, vals.len() as int) + seq![']']) == Some(vals),
{
    lemma_joined_is_array_body(vals, vals.len() as int);
    lemma_array_roundtrip(vals, vals.len() as int);
    assert(vals.subrange(0, vals.len() as int) =~= vals);
}

/// the first n units of a listing, the first without and the others with a leading comma
pub open spec fn units_text<L: Locale>(kv: Seq<(&(L, L::TranslationUnitId), &&'static [&'static str])>, n: int) -> Seq<char>
    decreases n
{
    if n <= 0 { Seq::empty() }
    else { units_text(kv, n - 1) + unit_text(n == 1, kv[n - 1].0.0, kv[n - 1].0.1, str_views(kv[n - 1].1@)) }
}
/// C17: the whole script: one assignment of one array literal
pub open spec fn script_text<L: Locale>(kv: Seq<(&(L, L::TranslationUnitId), &&'static [&'static str])>) -> Seq<char> {
    lit("window.__LEPTOS_I18N_TRANSLATIONS = [") + units_text(kv, kv.len() as int) + lit("];")
}
/// kv lists the registered units: each entry is a registered unit with its strings, no entry twice, as many
/// entries as units (hence every registered unit exactly once and nothing else)
pub open spec fn is_listing<L: Locale>(m: Map<(L, L::TranslationUnitId), &'static [&'static str]>, kv: Seq<(&(L, L::TranslationUnitId), &&'static [&'static str])>) -> bool {
    &&& kv.no_duplicates()
    &&& kv.len() == m.dom().len()
    &&& forall|i: int| 0 <= i < kv.len() ==> m.contains_key(*(#[trigger] kv[i]).0) && m[*kv[i].0] == *kv[i].1
}

// ---- the same text in the order the writer builds it: every step appends to the buffer so far (left-nested);
// the loop invariants are stated in this form, the lemmas below show it is `prefix + units_text` ----
pub open spec fn comma_unless(pre: Seq<char>, first: bool) -> Seq<char> { if first { pre } else { pre.push(',') } }
pub open spec fn joined_app(pre: Seq<char>, vals: Seq<Seq<char>>, n: int) -> Seq<char>
    decreases n
{
    if n <= 0 { pre } else { comma_unless(joined_app(pre, vals, n - 1), n == 1) + sstr(vals[n - 1]) }
}
pub open spec fn unit_head<L: Locale, I: TranslationUnitId>(pre: Seq<char>, first: bool, locale: L, id: I) -> Seq<char> {
    let a = comma_unless(pre, first) + lit("{\"locale\":\"") + locale.name();
    match id.id_name() {
        Some(n) => a + lit("\",\"id\":\"") + n + lit("\",\"values\":["),
        None => a + lit("\",\"id\":null,\"values\":["),
    }
}
pub open spec fn unit_app<L: Locale, I: TranslationUnitId>(pre: Seq<char>, first: bool, locale: L, id: I, vals: Seq<Seq<char>>) -> Seq<char> {
    joined_app(unit_head(pre, first, locale, id), vals, vals.len() as int) + lit("]}")
}
pub open spec fn units_app<L: Locale>(pre: Seq<char>, kv: Seq<(&(L, L::TranslationUnitId), &&'static [&'static str])>, n: int) -> Seq<char>
    decreases n
{
    if n <= 0 { pre } else { unit_app(units_app(pre, kv, n - 1), n == 1, kv[n - 1].0.0, kv[n - 1].0.1, str_views(kv[n - 1].1@)) }
}
pub proof fn lemma_joined_app(pre: Seq<char>, vals: Seq<Seq<char>>, n: int)
    requires 0 <= n <= vals.len(),
    ensures joined_app(pre, vals, n) =~= pre + joined(vals, n),
    decreases n
{
    if n > 0 { lemma_joined_app(pre, vals, n - 1); }
}
pub proof fn lemma_unit_app<L: Locale, I: TranslationUnitId>(pre: Seq<char>, first: bool, locale: L, id: I, vals: Seq<Seq<char>>)
    ensures unit_app(pre, first, locale, id, vals) =~= pre + unit_text(first, locale, id, vals),
{
    lemma_joined_app(unit_head(pre, first, locale, id), vals, vals.len() as int);
}
pub proof fn lemma_units_app<L: Locale>(pre: Seq<char>, kv: Seq<(&(L, L::TranslationUnitId), &&'static [&'static str])>, n: int)
    requires 0 <= n <= kv.len(),
    ensures units_app(pre, kv, n) =~= pre + units_text(kv, n),
    decreases n
{
    if n > 0 {
        lemma_units_app(pre, kv, n - 1);
        lemma_unit_app(units_app(pre, kv, n - 1), n == 1, kv[n - 1].0.0, kv[n - 1].0.1, str_views(kv[n - 1].1@));
    }
}

impl<L: Locale> RegisterCtx<L> {
//@@ to_array
}

// ---- client side (feature `hydrate`) ----
// T1: copied from the body of init_translations (the serde derive dropped)
pub struct Trans<L, Id> {
    pub locale: L,
    pub id: Id,
    pub values: Vec<Box<str>>,
}
pub open spec fn box_views(vals: Seq<Box<str>>) -> Seq<Seq<char>> { Seq::new(vals.len(), |i: int| vals[i]@) }
pub open spec fn h_units_text<L: Locale>(ts: Seq<Trans<L, L::TranslationUnitId>>, n: int) -> Seq<char>
    decreases n
{
    if n <= 0 { Seq::empty() }
    else { h_units_text(ts, n - 1) + unit_text(n == 1, ts[n - 1].locale, ts[n - 1].id, box_views(ts[n - 1].values@)) }
}
pub open spec fn h_units_app<L: Locale>(pre: Seq<char>, ts: Seq<Trans<L, L::TranslationUnitId>>, n: int) -> Seq<char>
    decreases n
{
    if n <= 0 { pre } else { unit_app(h_units_app(pre, ts, n - 1), n == 1, ts[n - 1].locale, ts[n - 1].id, box_views(ts[n - 1].values@)) }
}
pub proof fn lemma_h_units_app<L: Locale>(pre: Seq<char>, ts: Seq<Trans<L, L::TranslationUnitId>>, n: int)
    requires 0 <= n <= ts.len(),
    ensures h_units_app(pre, ts, n) =~= pre + h_units_text(ts, n),
    decreases n
{
    if n > 0 {
        lemma_h_units_app(pre, ts, n - 1);
        lemma_unit_app(h_units_app(pre, ts, n - 1), n == 1, ts[n - 1].locale, ts[n - 1].id, box_views(ts[n - 1].values@));
    }
}

//@@ hydrate_script

} // verus!
fn main() {}
