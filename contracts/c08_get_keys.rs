// Contract file for unit c08_get_keys (property C08): ParsedValue::get_keys_inner / get_keys -- the
// accumulation of the variables and components a caller must supply.  The same accumulator is fed with
// the value of every locale (ParsedValue::merge calls get_keys_inner on the default locale's accumulator),
// so "union over all locales" is the composition of this contract.
use vstd::prelude::*;
use vstd::std_specs::iter::IteratorSpec;
use std::collections::{BTreeMap, BTreeSet};
verus! {

// ---- R1 shims ----
#[derive(PartialEq, Eq, PartialOrd, Ord)]
pub struct Key { pub id: u64 }
impl Clone for Key { fn clone(&self) -> (r: Key) ensures r == *self { Key { id: self.id } } }
#[derive(PartialEq, Eq, PartialOrd, Ord, Clone, Copy)]
pub struct Formatter { pub id: u8 }
#[verifier::external_body] pub struct KeyPath { _p: u8 }
#[verifier::external_body] pub struct Locale { _p: u8 }
pub use core::ops::Bound;
// RefCell<ForeignKey>: after resolution it holds the referenced value
#[verifier::external_body] pub struct ForeignKeyCell { _p: u8 }
#[verifier::external_body] pub struct ForeignKey { _p: u8 }
pub enum Error {
    RangeAndPluralsMix { key_path: KeyPath },
    RangeTypeMissmatch { key_path: KeyPath, type1: RangeType, type2: RangeType },
    Other,
}
pub type Result<T> = core::result::Result<T, Box<Error>>;

// T1 copies
//@@ range_type_enum
//@@ range_or_plural_enum
//@@ var_info_struct
//@@ interpolation_keys_struct
//@@ literal_type_enum
//@@ interpol_or_lit_enum
//@@ literal_enum
//@@ plural_rule_type_enum
//@@ plural_form_enum
//@@ plurals_struct
//@@ range_enum
pub type RangesInner<T> = Vec<(Range<T>, ParsedValue)>;
//@@ untyped_enum
//@@ ranges_struct
//@@ parsed_value_enum

pub open spec fn var_set(k: InterpolOrLit) -> Set<Key> { match k { InterpolOrLit::Interpol(i) => i.variables@.dom(), InterpolOrLit::Lit(_) => Set::empty() } }
pub open spec fn comp_set(k: InterpolOrLit) -> Set<Key> { match k { InterpolOrLit::Interpol(i) => i.components@, InterpolOrLit::Lit(_) => Set::empty() } }

// what the unverified parts contribute (ranges: the values of their branches; foreign keys: the
// referenced value after substitution)
pub uninterp spec fn fk_has_var(c: ForeignKeyCell, k: Key) -> bool;
pub uninterp spec fn fk_has_comp(c: ForeignKeyCell, k: Key) -> bool;
pub uninterp spec fn fk_value(c: ForeignKeyCell) -> ParsedValue;

/// "variable k occurs in the value" -- written from the statement: interpolated variables, the count
/// variable of a range or plural, and whatever occurs in nested values
pub open spec fn has_var(p: ParsedValue, k: Key) -> bool
    decreases p
{
    match p {
        ParsedValue::Variable { key, formatter } => key == k,
        ParsedValue::Component { key, inner } => has_var(*inner, k),
        ParsedValue::Bloc(v) => exists|i: int| 0 <= i < v.len() && has_var(#[trigger] v[i], k),
        // the count variable of a range, and whatever occurs in the value of any of its branches
        ParsedValue::Ranges(r) => r.count_key == k || match r.inner {
            UntypedRangesInner::I8(v) => exists|i: int| 0 <= i < v.len() && has_var((#[trigger] v[i]).1, k),
            UntypedRangesInner::I16(v) => exists|i: int| 0 <= i < v.len() && has_var((#[trigger] v[i]).1, k),
            UntypedRangesInner::I32(v) => exists|i: int| 0 <= i < v.len() && has_var((#[trigger] v[i]).1, k),
            UntypedRangesInner::I64(v) => exists|i: int| 0 <= i < v.len() && has_var((#[trigger] v[i]).1, k),
            UntypedRangesInner::U8(v) => exists|i: int| 0 <= i < v.len() && has_var((#[trigger] v[i]).1, k),
            UntypedRangesInner::U16(v) => exists|i: int| 0 <= i < v.len() && has_var((#[trigger] v[i]).1, k),
            UntypedRangesInner::U32(v) => exists|i: int| 0 <= i < v.len() && has_var((#[trigger] v[i]).1, k),
            UntypedRangesInner::U64(v) => exists|i: int| 0 <= i < v.len() && has_var((#[trigger] v[i]).1, k),
            UntypedRangesInner::F32(v) => exists|i: int| 0 <= i < v.len() && has_var((#[trigger] v[i]).1, k),
            UntypedRangesInner::F64(v) => exists|i: int| 0 <= i < v.len() && has_var((#[trigger] v[i]).1, k),
        },
        ParsedValue::Plurals(pl) => pl.count_key == k || has_var(*pl.other, k)
            || exists|f: PluralForm| pl.forms@.contains_key(f) && has_var(#[trigger] pl.forms@[f], k),
        ParsedValue::ForeignKey(c) => fk_has_var(c, k),
        ParsedValue::Default | ParsedValue::Literal(_) | ParsedValue::Subkeys(_) => false,
    }
}
/// "component k occurs in the value"
pub open spec fn has_comp(p: ParsedValue, k: Key) -> bool
    decreases p
{
    match p {
        ParsedValue::Component { key, inner } => key == k || has_comp(*inner, k),
        ParsedValue::Bloc(v) => exists|i: int| 0 <= i < v.len() && has_comp(#[trigger] v[i], k),
        ParsedValue::Ranges(r) => match r.inner {
            UntypedRangesInner::I8(v) => exists|i: int| 0 <= i < v.len() && has_comp((#[trigger] v[i]).1, k),
            UntypedRangesInner::I16(v) => exists|i: int| 0 <= i < v.len() && has_comp((#[trigger] v[i]).1, k),
            UntypedRangesInner::I32(v) => exists|i: int| 0 <= i < v.len() && has_comp((#[trigger] v[i]).1, k),
            UntypedRangesInner::I64(v) => exists|i: int| 0 <= i < v.len() && has_comp((#[trigger] v[i]).1, k),
            UntypedRangesInner::U8(v) => exists|i: int| 0 <= i < v.len() && has_comp((#[trigger] v[i]).1, k),
            UntypedRangesInner::U16(v) => exists|i: int| 0 <= i < v.len() && has_comp((#[trigger] v[i]).1, k),
            UntypedRangesInner::U32(v) => exists|i: int| 0 <= i < v.len() && has_comp((#[trigger] v[i]).1, k),
            UntypedRangesInner::U64(v) => exists|i: int| 0 <= i < v.len() && has_comp((#[trigger] v[i]).1, k),
            UntypedRangesInner::F32(v) => exists|i: int| 0 <= i < v.len() && has_comp((#[trigger] v[i]).1, k),
            UntypedRangesInner::F64(v) => exists|i: int| 0 <= i < v.len() && has_comp((#[trigger] v[i]).1, k),
        },
        ParsedValue::Plurals(pl) => has_comp(*pl.other, k)
            || exists|f: PluralForm| pl.forms@.contains_key(f) && has_comp(#[trigger] pl.forms@[f], k),
        ParsedValue::ForeignKey(c) => fk_has_comp(c, k),
        ParsedValue::Variable { .. } | ParsedValue::Default | ParsedValue::Literal(_) | ParsedValue::Subkeys(_) => false,
    }
}
// the resolved value of a foreign key contributes exactly what the reference contributes (assumed)
pub broadcast axiom fn axiom_fk(c: ForeignKeyCell, k: Key)
    ensures #[trigger] has_var(fk_value(c), k) == fk_has_var(c, k), #[trigger] has_comp(fk_value(c), k) == fk_has_comp(c, k);

/// the accumulator requires afterwards exactly what it required before plus every variable / component of `p`:
/// nothing that occurs is missing, and nothing is required that does not occur somewhere
pub open spec fn covers(old_k: InterpolOrLit, new_k: InterpolOrLit, p: ParsedValue) -> bool {
    &&& forall|k: Key| var_set(old_k).contains(k) || has_var(p, k) <==> #[trigger] var_set(new_k).contains(k)
    &&& forall|k: Key| comp_set(old_k).contains(k) || has_comp(p, k) <==> #[trigger] comp_set(new_k).contains(k)
}

// contracts proved in unit c08_push_count (cross-unit edges)
impl InterpolationKeys {
    #[verifier::external_body]
    pub fn push_var(&mut self, key: Key, formatter: Formatter)
        ensures final(self).variables@.dom() == old(self).variables@.dom().insert(key), final(self).components == old(self).components,
    { unimplemented!() }
    #[verifier::external_body]
    pub fn push_comp(&mut self, key: Key)
        ensures final(self).components@ == old(self).components@.insert(key), final(self).variables@.dom() == old(self).variables@.dom(),
    { unimplemented!() }
    #[verifier::external_body]
    pub fn push_count(&mut self, key_path: &mut KeyPath, ty: RangeOrPlural, count_key: Key) -> (r: Result<()>)
        ensures final(self).variables@.dom() == old(self).variables@.dom().insert(count_key), final(self).components == old(self).components,
    { unimplemented!() }
}
impl InterpolOrLit {
    #[verifier::external_body]
    pub fn get_interpol_keys_mut(&mut self) -> (r: &mut InterpolationKeys)
        ensures r.variables@.dom() == var_set(*old(self)), r.components@ == comp_set(*old(self)),
            *final(self) == InterpolOrLit::Interpol(*final(r)),
    { unimplemented!() }
}
/// a branch list contributes what the values of its branches contribute
pub open spec fn inner_covers<T>(old_k: InterpolOrLit, new_k: InterpolOrLit, v: Seq<(Range<T>, ParsedValue)>) -> bool {
    &&& forall|k: Key| var_set(old_k).contains(k) || (exists|i: int| 0 <= i < v.len() && has_var((#[trigger] v[i]).1, k)) <==> #[trigger] var_set(new_k).contains(k)
    &&& forall|k: Key| comp_set(old_k).contains(k) || (exists|i: int| 0 <= i < v.len() && has_comp((#[trigger] v[i]).1, k)) <==> #[trigger] comp_set(new_k).contains(k)
}
pub open spec fn ranges_covers(old_k: InterpolOrLit, new_k: InterpolOrLit, r: Ranges) -> bool {
    match r.inner {
        UntypedRangesInner::I8(v) => inner_covers(old_k, new_k, v@),
        UntypedRangesInner::I16(v) => inner_covers(old_k, new_k, v@),
        UntypedRangesInner::I32(v) => inner_covers(old_k, new_k, v@),
        UntypedRangesInner::I64(v) => inner_covers(old_k, new_k, v@),
        UntypedRangesInner::U8(v) => inner_covers(old_k, new_k, v@),
        UntypedRangesInner::U16(v) => inner_covers(old_k, new_k, v@),
        UntypedRangesInner::U32(v) => inner_covers(old_k, new_k, v@),
        UntypedRangesInner::U64(v) => inner_covers(old_k, new_k, v@),
        UntypedRangesInner::F32(v) => inner_covers(old_k, new_k, v@),
        UntypedRangesInner::F64(v) => inner_covers(old_k, new_k, v@),
    }
}

// N1: hoisted nested fn of Ranges::get_keys_inner
//@@ ranges_inner

impl Ranges {
//@@ ranges_get_keys_inner

//@@ ranges_get_type
}
impl ForeignKeyCell {
    #[verifier::external_body]
    pub fn borrow(&self) -> (r: &ForeignKey) ensures fk_of(*r) == *self { unimplemented!() }
}
pub uninterp spec fn fk_of(f: ForeignKey) -> ForeignKeyCell;
impl ForeignKey {
    #[verifier::external_body]
    pub fn as_inner(&self, call_site: &str) -> (r: &ParsedValue) ensures *r == fk_value(fk_of(*self)) { unimplemented!() }
}

impl Literal {
//@@ literal_get_type
}

impl ParsedValue {
//@@ get_keys_inner

//@@ get_keys
}

} // verus!
fn main() {}
