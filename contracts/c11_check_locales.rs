// Contract file for unit c11_check_locales (properties C11, C03, C09):
// parse_locales/mod.rs::check_locales_inner -- the function between the per-literal units
// (StringIndexer::push_str, Literal::index_strings) and the exported tables, and the place where
// the `inherits` configuration is turned into the DefaultTo handed to Locale::merge.
use vstd::prelude::*;
use vstd::std_specs::hash::*;
use vstd::std_specs::iter::IteratorSpec;
use std::collections::{BTreeMap, HashMap};
verus! {

// ---- R1 shims ----
#[derive(PartialEq, Eq, PartialOrd, Ord)]
pub struct Key { pub id: u64 }
impl Clone for Key { fn clone(&self) -> (r: Key) ensures r == *self { Key { id: self.id } } }
#[verifier::external_body] pub struct ParsedValue { _p: u8 }
#[verifier::external_body] pub struct KeyPath { _p: u8 }
#[verifier::external_body] pub struct Warnings { _p: u8 }
#[verifier::external_body] pub struct BuildersKeysInner { _p: u8 }
#[verifier::external_body] pub struct Error { _p: u8 }
pub type Result<T> = core::result::Result<T, Box<Error>>;
impl KeyPath { #[verifier::external_body] pub fn new(namespace: Option<Key>) -> KeyPath { unimplemented!() } }

// T1 + R2: parse_locales/mod.rs
//@@ indexer_struct
impl StringIndexer {
    pub open spec fn table(&self) -> Seq<Seq<char>> { Seq::new(self.acc@.len(), |i: int| self.acc@[i]@) }
    /// representation invariant, as in unit c11_string_indexer (proved there for every method)
    pub open spec fn wf(&self) -> bool {
        &&& obeys_key_model::<String>()
        &&& forall|i: int| 0 <= i < self.acc@.len() ==> self.current@.contains_key(#[trigger] self.acc@[i]) && self.current@[self.acc@[i]] == i
        &&& forall|k: String| self.current@.contains_key(k) ==> 0 <= #[trigger] self.current@[k] < self.acc@.len() && self.acc@[self.current@[k] as int] == k
    }
    // contract proved in unit c11_string_indexer (cross-unit edge)
    #[verifier::external_body]
    pub fn get_strings(self) -> (r: Vec<String>)
        ensures table_of(r) == self.table(),
    { unimplemented!() }
}
// `#[derive(Default)]`: an empty map and an empty vector (assumed meaning of the derived impl)
impl Default for StringIndexer {
    #[verifier::external_body]
    fn default() -> (r: StringIndexer) ensures r.acc@.len() == 0, r.current@ == Map::<String, usize>::empty() { unimplemented!() }
}

// T1 + R2: parse_locales/locale.rs
//@@ locale_struct
//@@ default_to_enum

pub open spec fn table_of(v: Vec<String>) -> Seq<Seq<char>> { Seq::new(v@.len(), |i: int| v@[i]@) }

/// "every string literal reachable from these keys carries an index at which `t` holds its text"
/// (what push_str + index_strings establish per literal; the traversal that applies them to every
/// literal is not verified -- it is the assumed contract of make_builder_keys / merge below)
pub uninterp spec fn lits_ok(keys: BTreeMap<Key, ParsedValue>, t: Seq<Seq<char>>) -> bool;
/// indices stay valid when the table only grows
pub broadcast axiom fn axiom_lits_ok_prefix(keys: BTreeMap<Key, ParsedValue>, t: Seq<Seq<char>>, t2: Seq<Seq<char>>)
    requires lits_ok(keys, t), t.is_prefix_of(t2),
    ensures #[trigger] lits_ok(keys, t2), #[trigger] t.is_prefix_of(t2);

/// the `inherits` table and the default locale of this call (ghost names for the arguments)
pub uninterp spec fn the_inherits() -> Map<Key, Key>;
pub uninterp spec fn the_default() -> Key;
pub open spec fn key_of(d: DefaultTo) -> Key { match d { DefaultTo::Explicit(k) => *k, DefaultTo::Implicit(k) => *k } }

impl Locale {
    // assumed contract of the (unverified) traversal
    #[verifier::external_body]
    pub fn make_builder_keys(&mut self, key_path: &mut KeyPath, strings: &mut StringIndexer) -> (r: Result<BuildersKeysInner>)
        requires old(strings).wf(),
        ensures
            final(self).top_locale_name == old(self).top_locale_name, final(self).name == old(self).name,
            final(self).strings == old(self).strings, final(self).top_locale_string_count == old(self).top_locale_string_count,
            r is Ok ==> final(strings).wf() && lits_ok(final(self).keys, final(strings).table()),
    { unimplemented!() }

    #[verifier::external_body]
    pub fn merge(&mut self, keys: &mut BuildersKeysInner, top_locale: Key, default_to: DefaultTo, key_path: &mut KeyPath,
                 strings: &mut StringIndexer, warnings: &Warnings) -> (r: Result<()>)
        requires
            old(strings).wf(),
            // C03: a locale listed in `inherits` falls back to the locale named there, explicitly;
            // every other locale falls back to the default locale, implicitly (missing keys are reported)
            the_inherits().contains_key(top_locale) ==> default_to is Explicit && key_of(default_to) == the_inherits()[top_locale],
            !the_inherits().contains_key(top_locale) ==> default_to is Implicit && key_of(default_to) == the_default(),
        ensures
            final(self).top_locale_name == old(self).top_locale_name, final(self).name == old(self).name,
            final(self).strings == old(self).strings, final(self).top_locale_string_count == old(self).top_locale_string_count,
            r is Ok ==> final(strings).wf() && lits_ok(final(self).keys, final(strings).table()),
    { unimplemented!() }
}
impl BuildersKeysInner {
    #[verifier::external_body]
    pub fn propagate_string_count(&mut self, top_locales: &[Locale]) { unimplemented!() }
}

/// C11 for one locale: the exported table holds, at each index a literal carries, that literal's
/// text, and the count the generated code uses is the table's length
pub open spec fn table_matches(l: Locale) -> bool {
    lits_ok(l.keys, table_of(l.strings)) && l.top_locale_string_count == l.strings@.len()
}

//@@ check_locales_inner

} // verus!
fn main() {}
