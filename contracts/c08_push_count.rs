// Contract file for unit c08_push_count (property C08): the count variable of a key is typed by the
// range's numeric type or as a plural count, consistently over all locales.
use vstd::prelude::*;
use std::collections::{BTreeMap, BTreeSet};
verus! {

// R1 shims
#[derive(PartialEq, Eq, PartialOrd, Ord)]
pub struct Key { pub id: u64 }
#[derive(PartialEq, Eq, PartialOrd, Ord, Clone, Copy)]
pub struct Formatter { pub id: u8 }
// T1: copied from utils/key.rs (derive list reduced)
//@@ keypath_struct
impl Default for KeyPath {
    fn default() -> (r: KeyPath) ensures r.namespace is None, r.path@.len() == 0 { KeyPath { namespace: None, path: Vec::new() } }
}

// T1: copied from ranges.rs / locale.rs (derive lists reduced to what Verus accepts + Structural)
//@@ range_type_enum
//@@ range_or_plural_enum
//@@ var_info_struct

// the two variants of parse_locales::error::Error that push_count constructs (field lists verbatim)
pub enum Error {
    RangeAndPluralsMix { key_path: KeyPath },
    RangeTypeMissmatch { key_path: KeyPath, type1: RangeType, type2: RangeType },
    Other,
}
pub type Result<T> = core::result::Result<T, Box<Error>>;

// assumed std contracts (documented behaviour)
pub assume_specification<T>[ Option::<T>::replace ](o: &mut Option<T>, v: T) -> (r: Option<T>)
    ensures r == *old(o), *final(o) == Some(v);
pub assume_specification<T>[ <Box<T> as From<T>>::from ](t: T) -> (b: Box<T>)
    ensures *b == t;
pub assume_specification<T: Default>[ std::mem::take::<T> ](d: &mut T) -> (r: T)
    ensures r == *old(d);

pub struct InterpolationKeys {
    components: BTreeSet<Key>,
    variables: BTreeMap<Key, VarInfo>,
}

pub open spec fn is_range(t: Option<RangeOrPlural>) -> bool { t matches Some(RangeOrPlural::Range(_)) }
pub open spec fn is_plural(t: Option<RangeOrPlural>) -> bool { t matches Some(RangeOrPlural::Plural) }

impl InterpolationKeys {
//@@ push_count
}

} // verus!
fn main() {}
