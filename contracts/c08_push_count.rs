// Contract file for unit c08_push_count (property C08): the count variable of a key is typed by the
// range's numeric type or as a plural count, consistently over all locales.
use vstd::prelude::*;
use std::collections::{BTreeMap, BTreeSet};
verus! {

// R1 shims
#[derive(PartialEq, Eq, PartialOrd, Ord)]
pub struct Key { pub id: u64 }
#[derive(PartialEq, Eq, PartialOrd, Ord, Clone, Copy)]
pub struct Formatter { pub id: u8 }
impl Default for InterpolationKeys {
    fn default() -> (r: InterpolationKeys) ensures r.components@ == Set::<Key>::empty(), r.variables@ == Map::<Key, VarInfo>::empty() { InterpolationKeys { components: BTreeSet::new(), variables: BTreeMap::new() } }
}
// T1: copied from utils/key.rs (derive list reduced)
//@@ keypath_struct
impl Default for KeyPath {
    fn default() -> (r: KeyPath) ensures r.namespace is None, r.path@.len() == 0 { KeyPath { namespace: None, path: Vec::new() } }
}

// T1: copied from ranges.rs / locale.rs (derive lists reduced to what Verus accepts + Structural)
//@@ range_type_enum
//@@ range_or_plural_enum
//@@ var_info_struct

// the two variants of parse_locales::error::Error that push_count constructs (field lists verbatim)
pub enum Error {
    RangeAndPluralsMix { key_path: KeyPath },
    RangeTypeMissmatch { key_path: KeyPath, type1: RangeType, type2: RangeType },
    Other,
}
pub type Result<T> = core::result::Result<T, Box<Error>>;

// assumed std contracts (documented behaviour)
pub assume_specification<T>[ Option::<T>::replace ](o: &mut Option<T>, v: T) -> (r: Option<T>)
    ensures r == *old(o), *final(o) == Some(v);
pub assume_specification<T>[ <Box<T> as From<T>>::from ](t: T) -> (b: Box<T>)
    ensures *b == t;
pub assume_specification<T: Default>[ std::mem::take::<T> ](d: &mut T) -> (r: T)
    ensures r == *old(d);

// T1: copied from locale.rs (fields made pub for the spec functions)
//@@ interpolation_keys_struct
//@@ literal_type_enum
//@@ interpol_or_lit_enum

// A3 (assumed std contract): `m.entry(k).or_default()` on a BTreeMap<Key, VarInfo> yields the entry of k
// -- the stored one, or a fresh default (no formatter, no count type) -- and whatever is written
// through the returned reference is what the map holds under k afterwards; nothing else changes.
pub open spec fn empty_info(v: VarInfo) -> bool { v.formatters@ == Set::<Formatter>::empty() && v.range_count is None }
#[verifier::external_body]
pub fn btree_entry_or_default(m: &mut BTreeMap<Key, VarInfo>, k: Key) -> (r: &mut VarInfo)
    ensures
        old(m)@.contains_key(k) ==> *r == old(m)@[k],
        !old(m)@.contains_key(k) ==> empty_info(*r),
        final(m)@ == old(m)@.insert(k, *final(r)),
{ unimplemented!() }

/// the count type recorded for a variable so far (None when the variable is unknown)
pub open spec fn count_type(m: Map<Key, VarInfo>, k: Key) -> Option<RangeOrPlural> {
    if m.contains_key(k) { m[k].range_count } else { None }
}
pub open spec fn formatters_of(m: Map<Key, VarInfo>, k: Key) -> Set<Formatter> {
    if m.contains_key(k) { m[k].formatters@ } else { Set::empty() }
}
pub open spec fn is_range(t: Option<RangeOrPlural>) -> bool { t matches Some(RangeOrPlural::Range(_)) }
pub open spec fn is_plural(t: Option<RangeOrPlural>) -> bool { t matches Some(RangeOrPlural::Plural) }
/// the variables / components a caller must supply according to an accumulator
pub open spec fn var_set(k: InterpolOrLit) -> Set<Key> { match k { InterpolOrLit::Interpol(i) => i.variables@.dom(), InterpolOrLit::Lit(_) => Set::empty() } }
pub open spec fn comp_set(k: InterpolOrLit) -> Set<Key> { match k { InterpolOrLit::Interpol(i) => i.components@, InterpolOrLit::Lit(_) => Set::empty() } }

impl InterpolationKeys {
//@@ push_var

//@@ push_comp

//@@ push_count
}

impl InterpolOrLit {
//@@ get_interpol_keys_mut
}

} // verus!
fn main() {}
