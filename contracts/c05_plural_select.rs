// Contract file for unit c05_plural_select (property C05, partial): parse-time selection of a plural form
// for a literal foreign-key count, and renaming of the count variable.
// The CLDR category itself is computed by ICU4X (`PluralRules::category_for`): external, an uninterpreted
// function here.  What is verified is that the repository's code renders the form of exactly that category
// and falls back to `other` when that form was not written.
use vstd::prelude::*;
use std::collections::BTreeMap;
verus! {

// ---- R1 shims ----
#[derive(PartialEq, Eq, PartialOrd, Ord)]
pub struct Key { pub id: u64 }
impl Clone for Key { fn clone(&self) -> (r: Key) ensures r == *self { Key { id: self.id } } }
#[verifier::external_body] pub struct KeyPath { _p: u8 }
impl Clone for KeyPath { #[verifier::external_body] fn clone(&self) -> KeyPath { unimplemented!() } }
#[verifier::external_body] pub struct Formatter { _p: u8 }
pub assume_specification<T: Clone>[ <T as std::borrow::ToOwned>::to_owned ](x: &T) -> T;
pub assume_specification<T>[ <Box<T> as From<T>>::from ](t: T) -> (b: Box<T>) ensures *b == t;
// ICU4X's category enum (icu_plurals::PluralCategory), same variants
#[derive(Clone, Copy, PartialEq, Eq, Structural)]
pub enum PluralCategory { Zero, One, Two, Few, Many, Other }
// fixed_decimal: only the conversion of a float literal is used
#[verifier::external_body] pub struct FixedDecimal { _p: u8 }
// fixed_decimal::FloatPrecision, same variants: how many digits of the float are kept
pub enum FloatPrecision { Integer, Magnitude(i16), SignificantDigits(u8), Floating }
pub uninterp spec fn decimal_with(f: f64, p: FloatPrecision) -> FixedDecimal;
/// the decimal that denotes the float exactly as written (shortest round-trip digits): the operand CLDR
/// rules must see, since the visible fraction digits take part in the rules
pub open spec fn decimal_of(f: f64) -> FixedDecimal { decimal_with(f, FloatPrecision::Floating) }
pub uninterp spec fn decimal_ok(f: f64) -> bool;
impl FixedDecimal {
    pub open spec fn try_from_f64_ok(f: f64) -> bool { decimal_ok(f) }
    #[verifier::external_body]
    pub fn try_from_f64(f: f64, p: FloatPrecision) -> (r: core::result::Result<FixedDecimal, ()>)
        ensures r matches Ok(d) ==> d == decimal_with(f, p), decimal_ok(f) ==> r is Ok,
    { unimplemented!() }
}
pub enum Error {
    InvalidCountArg { locale: Key, key_path: KeyPath, foreign_key: KeyPath },
    Other,
}
pub type Result<T> = core::result::Result<T, Box<Error>>;

// T1 copies
//@@ literal_enum
//@@ plural_rule_type_enum
//@@ plural_form_enum
//@@ plurals_struct
// R1: the variants of ParsedValue these functions distinguish
pub enum ParsedValue {
    Literal(Literal),
    Variable { key: Key, formatter: Formatter },
    Bloc(Vec<ParsedValue>),
    Plurals(Plurals),
    Other,
}

/// the operand handed to ICU for a literal count
pub enum Operand { Dec(FixedDecimal), U(u64), I(i64) }
/// CLDR category of an operand for a locale and rule type: ICU4X (external)
pub uninterp spec fn cldr_category(locale: Key, rule: PluralRuleType, op: Operand) -> Result<PluralCategory>;

pub trait IntoOperand { spec fn operand(self) -> Operand; }
impl IntoOperand for &FixedDecimal { open spec fn operand(self) -> Operand { Operand::Dec(*self) } }
impl IntoOperand for u64 { open spec fn operand(self) -> Operand { Operand::U(self) } }
impl IntoOperand for i64 { open spec fn operand(self) -> Operand { Operand::I(self) } }

// N1: hoisted nested fn of populate_with_count_arg (body = two ICU calls)
#[verifier::external_body]
fn get_category<I: IntoOperand>(plurals: &Plurals, locale: &Key, input: I) -> (r: Result<PluralCategory>)
    ensures r == cldr_category(*locale, plurals.rule_type, input.operand())
{ unimplemented!() }

pub uninterp spec fn populated(v: ParsedValue, args: BTreeMap<String, ParsedValue>) -> Result<ParsedValue>;
impl ParsedValue {
    #[verifier::external_body]
    pub fn populate(&self, args: &BTreeMap<String, ParsedValue>, foreign_key: &KeyPath, locale: &Key, key_path: &KeyPath) -> (r: Result<ParsedValue>)
        ensures r == populated(*self, *args)
    { unimplemented!() }
}

pub open spec fn form_of(c: PluralCategory) -> PluralForm {
    match c { PluralCategory::Zero => PluralForm::Zero, PluralCategory::One => PluralForm::One, PluralCategory::Two => PluralForm::Two,
              PluralCategory::Few => PluralForm::Few, PluralCategory::Many => PluralForm::Many, PluralCategory::Other => PluralForm::Other }
}
/// C05: the form rendered for a category: the one written for it, `other` when it was not written
pub open spec fn selected(p: Plurals, c: PluralCategory) -> ParsedValue {
    if form_of(c) != PluralForm::Other && p.forms@.contains_key(form_of(c)) { p.forms@[form_of(c)] } else { *p.other }
}
pub open spec fn literal_operand(l: Literal) -> Option<Operand> {
    match l { Literal::Float(f) => Some(Operand::Dec(decimal_of(f))), Literal::Unsigned(u) => Some(Operand::U(u)),
              Literal::Signed(i) => Some(Operand::I(i)), _ => None }
}

impl PluralForm {
//@@ from_icu_category
}

impl Plurals {
    #[verifier::external_body]
    pub fn find_variable(values: &[ParsedValue], locale: &Key, key_path: &KeyPath, foreign_key: &KeyPath) -> Result<Key> { unimplemented!() }

//@@ populate_with_new_key

//@@ populate_with_count_arg
}

} // verus!
fn main() {}
