// Contract file for unit c11_string_indexer (property C11).
// Specification text for /verif; function bodies at `//@@` markers are extracted from /repo.
use vstd::prelude::*;
use vstd::std_specs::hash::*;
use std::collections::HashMap;
verus! {

// ---- assumed facts about std that vstd leaves unspecified (listed in trusted_base) ----
pub assume_specification<'a, 'b>[ <String as From<&'a str>>::from ](s: &'b str) -> (r: String)
    ensures r@ == s@;

pub broadcast axiom fn axiom_string_view_injective(a: String, b: String)
    ensures #[trigger] a@ == #[trigger] b@ ==> a == b;

pub broadcast axiom fn axiom_string_str_borrow<V>(m: Map<String, V>, k: &str)
    ensures #[trigger] contains_borrowed_key::<String, V, str>(m, k) <==> exists|key: String| key@ == k@ && m.contains_key(key);

pub broadcast axiom fn axiom_string_str_borrow_value<V>(m: Map<String, V>, k: &str, v: V)
    ensures #[trigger] maps_borrowed_key_to_value::<String, V, str>(m, k, v) <==> exists|key: String| key@ == k@ && m.contains_key(key) && m[key] == v;

pub assume_specification<T>[ std::mem::replace::<T> ](dest: &mut T, src: T) -> (r: T)
    ensures r == *old(dest), *final(dest) == src;

// T1 + R2: copied from parse_locales/mod.rs, `Rc<str>` -> `String`
//@@ indexer_struct

pub open spec fn table_of(v: Vec<String>) -> Seq<Seq<char>> { Seq::new(v@.len(), |i: int| v@[i]@) }

impl StringIndexer {
    /// the exported table: the text at each index
    pub open spec fn table(&self) -> Seq<Seq<char>> {
        Seq::new(self.acc@.len(), |i: int| self.acc@[i]@)
    }
    /// representation invariant: `current` is the inverse of `acc`
    pub open spec fn wf(&self) -> bool {
        &&& obeys_key_model::<String>()
        &&& forall|i: int| 0 <= i < self.acc@.len() ==> self.current@.contains_key(#[trigger] self.acc@[i]) && self.current@[self.acc@[i]] == i
        &&& forall|k: String| self.current@.contains_key(k) ==> 0 <= #[trigger] self.current@[k] < self.acc@.len() && self.acc@[self.current@[k] as int] == k
    }

//@@ push_str

//@@ get_strings

//@@ indexer_other_methods
}

// T1: copied from parsed_value.rs
//@@ literal_enum

impl Literal {
//@@ lit_index_strings
}

} // verus!
fn main() {}
