// Contract file for unit c18_from_args_helper (property C18): the helper every `from_args` goes through, verified
// for every argument type S, option type T and recogniser f, and for every list length.
// Specification text for /verif; the function body at the `//@@` marker is extracted from /repo.
use vstd::prelude::*;
use vstd::std_specs::cmp::PartialEqSpec;
verus! {

/// position i decides with value r: its name is this option's name, the recogniser accepted its value, and every
/// earlier argument either has another name or a value the recogniser rejected
pub open spec fn hit<'a, T, S: PartialEq + PartialEq<&'a str>, F: Fn(&S) -> Option<T>>(args: Seq<(S, S)>, name: &'a str, f: F, i: int, r: T) -> bool {
    &&& 0 <= i < args.len()
    &&& args[i].0.eq_spec(&name)
    &&& f.ensures((&args[i].1,), Some(r))
    &&& forall|j: int| 0 <= j < i ==> !(#[trigger] args[j]).0.eq_spec(&name) || f.ensures((&args[j].1,), None)
}
/// no argument decides
pub open spec fn miss<'a, T, S: PartialEq + PartialEq<&'a str>, F: Fn(&S) -> Option<T>>(args: Seq<(S, S)>, name: &'a str, f: F) -> bool {
    forall|j: int| 0 <= j < args.len() ==> !(#[trigger] args[j]).0.eq_spec(&name) || f.ensures((&args[j].1,), None::<T>)
}

//@@ from_args_helper

} // verus!
fn main() {}
