// Contract file for unit c19_config (property C19, partial): the normalisation and duplicate detection that
// ConfigFile::new applies after deserialisation.
use vstd::prelude::*;
use std::collections::{BTreeMap, BTreeSet};
use vstd::std_specs::cmp::PartialEqSpec;
verus! {

// R1 shim: a locale / namespace name (identity = name, see utils/key.rs)
#[derive(PartialEq, Eq, PartialOrd, Ord)]
pub struct Key { pub id: u64 }
impl Clone for Key { fn clone(&self) -> (r: Key) ensures r == *self { Key { id: self.id } } }
impl vstd::std_specs::cmp::PartialEqSpecImpl for Key {
    open spec fn obeys_eq_spec() -> bool { true }
    open spec fn eq_spec(&self, other: &Key) -> bool { self.id == other.id }
}

// T1: copied from cfg_file.rs (Cow<'static, str> -> String)
//@@ config_struct

// ---- assumed std contracts (documented behaviour; vstd has none for them) ----
pub assume_specification<T>[ <[T]>::swap ](s: &mut [T], a: usize, b: usize)
    requires a < old(s)@.len(), b < old(s)@.len(),
    ensures final(s)@ == old(s)@.update(a as int, old(s)@[b as int]).update(b as int, old(s)@[a as int]);

/// C19: the known locales are the listed ones and the default (always part of the list, listed or not)
pub open spec fn known(locales: Seq<Key>, default: Key, k: Key) -> bool { locales.contains(k) || k == default }

// A5 (assumed std contract): `v.iter().position(p)`: the index of the first element p accepts, None when it
// accepts none (documentation of Iterator::position)
#[verifier::external_body]
pub fn slice_position<T, P: FnMut(&T) -> bool>(v: &Vec<T>, p: P) -> (r: Option<usize>)
    requires forall|i: int| 0 <= i < v@.len() ==> call_requires(p, (&#[trigger] v@[i],)),
    ensures
        match r {
            Some(i) => i < v@.len() && call_ensures(p, (&v@[i as int],), true)
                && forall|j: int| 0 <= j < i ==> call_ensures(p, (&#[trigger] v@[j],), false),
            None => forall|j: int| 0 <= j < v@.len() ==> call_ensures(p, (&#[trigger] v@[j],), false),
        },
{ v.iter().position(p) }

// A2 (assumed std contract): `o.get_or_insert_with(BTreeSet::new).insert(k)` adds k to the set held by
// the option (an empty set when it was None) and makes it Some
pub open spec fn set_of(o: Option<BTreeSet<Key>>) -> Set<Key> { match o { Some(s) => s@, None => Set::empty() } }
#[verifier::external_body]
pub fn option_set_insert(o: &mut Option<BTreeSet<Key>>, k: Key)
    ensures *final(o) is Some, set_of(*final(o)) == set_of(*old(o)).insert(k),
{ o.get_or_insert_with(BTreeSet::new).insert(k); }

/// "k is listed more than once"
pub open spec fn duplicated(s: Seq<Key>, k: Key) -> bool {
    exists|i: int, j: int| 0 <= i < j < s.len() && s[i] == k && s[j] == k
}

/// one more element: a name is duplicated in the longer prefix iff it already was, or it is the new
/// element and occurs before
pub proof fn lemma_dup_step(s: Seq<Key>, i: int)
    requires 0 <= i < s.len(),
    ensures
        forall|k: Key| duplicated(s.take(i + 1), k) <==> (duplicated(s.take(i), k) || (s[i] == k && exists|j: int| 0 <= j < i && s[j] == k)),
        s.take(i + 1).no_duplicates() <==> (s.take(i).no_duplicates() && !(exists|j: int| 0 <= j < i && s[j] == s[i])),
{
    let a = s.take(i);
    let b = s.take(i + 1);
    assert(b =~= a.push(s[i]));
    assert forall|k: Key| duplicated(b, k) <==> (duplicated(a, k) || (s[i] == k && exists|j: int| 0 <= j < i && s[j] == k)) by {
        if duplicated(b, k) {
            let (x, y) = choose|x: int, y: int| 0 <= x < y < b.len() && b[x] == k && b[y] == k;
            if y < i { assert(a[x] == k && a[y] == k); } else { assert(s[x] == k); }
        }
        if duplicated(a, k) {
            let (x, y) = choose|x: int, y: int| 0 <= x < y < a.len() && a[x] == k && a[y] == k;
            assert(b[x] == k && b[y] == k);
        }
        if s[i] == k && exists|j: int| 0 <= j < i && s[j] == k {
            let j = choose|j: int| 0 <= j < i && s[j] == k;
            assert(b[j] == k && b[i] == k);
        }
    }
    if a.no_duplicates() && !(exists|j: int| 0 <= j < i && s[j] == s[i]) {
        assert forall|x: int, y: int| 0 <= x < b.len() && 0 <= y < b.len() && x != y implies b[x] != b[y] by {
            if x < i && y < i { assert(a[x] != a[y]); }
        }
    }
    if b.no_duplicates() {
        assert forall|x: int, y: int| 0 <= x < a.len() && 0 <= y < a.len() && x != y implies a[x] != a[y] by {
            assert(b[x] != b[y]);
        }
        if exists|j: int| 0 <= j < i && s[j] == s[i] {
            let j = choose|j: int| 0 <= j < i && s[j] == s[i];
            assert(b[j] == b[i]);
        }
    }
}

impl ConfigFile {
//@@ contain_duplicates
}

//@@ normalise_default_first

// ---- shims for the lifted `inherits` validation of CfgFileVisitor::visit_map (rule E3) ----
// serde's error constructor and format!: opaque (M1: the macro call becomes a total function of its arguments)
pub struct DeError { pub msg: u8 }
pub mod serde { pub mod de { pub mod Error {
    use vstd::prelude::*;
    verus! { #[verifier::external_body] pub fn custom<T>(t: T) -> super::super::super::DeError { unimplemented!() } }
} } }
#[verifier::external_body] pub fn fmt<A>(a: A) -> String { unimplemented!() }
pub assume_specification<T: PartialEq>[ <[T]>::contains ](s: &[T], x: &T) -> (r: bool)
    ensures T::obeys_eq_spec() ==> r == exists|i: int| 0 <= i < s@.len() && s@[i].eq_spec(x);

//@@ validate_inherits

} // verus!
fn main() {}
