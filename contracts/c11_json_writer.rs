// Contract file for unit c11_json_writer (properties C11, C09).
// Specification text for /verif; function bodies at `//@@` markers are extracted from /repo.
use vstd::prelude::*;
verus! {

//@INCLUDE json_spec.inc

/// what the property demands of the writer for one character: '"', '\\' and U+0000..U+001F must be
/// escaped, everything else (no-break space, zero-width, astral ...) is written as is
pub open spec fn jesc_char(c: char) -> Seq<char> {
    if c == '"' { seq!['\\', '"'] }
    else if c == '\\' { seq!['\\', '\\'] }
    else if (c as int) < 0x20 { seq!['\\', 'u', '0', '0', hex_digit_spec((c as int) / 16), hex_digit_spec((c as int) % 16)] }
    else { seq![c] }
}

pub open spec fn jesc(s: Seq<char>) -> Seq<char>
    decreases s.len()
{
    if s.len() == 0 { Seq::empty() } else { jesc_char(s[0]) + jesc(s.skip(1)) }
}

pub proof fn lemma_jesc_concat(a: Seq<char>, b: Seq<char>)
    ensures jesc(a + b) =~= jesc(a) + jesc(b)
    decreases a.len()
{
    if a.len() == 0 {
        assert(a + b =~= b);
    } else {
        assert((a + b).skip(1) =~= a.skip(1) + b);
        assert((a + b)[0] == a[0]);
        lemma_jesc_concat(a.skip(1), b);
    }
}

pub proof fn lemma_jesc_push(s: Seq<char>, c: char)
    ensures jesc(s.push(c)) =~= jesc(s) + jesc_char(c)
{
    lemma_jesc_concat(s, seq![c]);
    assert(s.push(c) =~= s + seq![c]);
    assert(seq![c].skip(1) =~= Seq::<char>::empty());
    assert(jesc(seq![c]) =~= jesc_char(c) + jesc(Seq::<char>::empty()));
}

/// C11: decoding what the writer emits gives back exactly the string, for every text
pub proof fn lemma_roundtrip(s: Seq<char>)
    ensures junesc(jesc(s)) == Some(s)
    decreases s.len()
{
    if s.len() == 0 {
    } else {
        let c = s[0];
        let rest = s.skip(1);
        lemma_roundtrip(rest);
        let e = jesc(s);
        assert(e == jesc_char(c) + jesc(rest));
        if c == '"' || c == '\\' {
            assert(e.skip(2) =~= jesc(rest));
            assert(seq![c] + rest =~= s);
        } else if (c as int) < 0x20 {
            lemma_hex((c as int) / 16);
            lemma_hex((c as int) % 16);
            assert(e.skip(6) =~= jesc(rest));
            assert(e[2] == '0' && e[3] == '0');
            let v = 0 * 4096 + 0 * 256 + ((c as int) / 16) * 16 + (c as int) % 16;
            assert(v == c as int);
            assert(v as char == c);
            assert(seq![c] + rest =~= s);
        } else {
            assert(e.skip(1) =~= jesc(rest));
            assert(seq![c] + rest =~= s);
        }
    }
}

/// the emitted body never contains a raw control character, and a quote only right after a backslash
pub proof fn lemma_no_raw(s: Seq<char>, i: int)
    requires 0 <= i < jesc(s).len()
    ensures (jesc(s)[i] as int) >= 0x20,
            jesc(s)[i] == '"' ==> i > 0 && jesc(s)[i - 1] == '\\',
    decreases s.len()
{
    if s.len() == 0 {
    } else {
        let c = s[0];
        let head = jesc_char(c);
        let tail = jesc(s.skip(1));
        assert(jesc(s) == head + tail);
        if i < head.len() {
            if (c as int) < 0x20 && c != '"' && c != '\\' {
                assert(0 <= (c as int) / 16 < 16);
                assert(0 <= (c as int) % 16 < 16);
            }
        } else {
            lemma_no_raw(s.skip(1), i - head.len());
            if tail[i - head.len()] == '"' {
                assert(i - head.len() > 0);
            }
        }
    }
}

/// one JSON string literal
pub open spec fn jstr(s: Seq<char>) -> Seq<char> { seq!['"'] + jesc(s) + seq!['"'] }

/// the text of a JSON array of the first n strings
pub open spec fn jarray_body(strs: Seq<String>, n: int) -> Seq<char>
    decreases n
{
    if n <= 0 { Seq::empty() }
    else if n == 1 { jstr(strs[0]@) }
    else { jarray_body(strs, n - 1) + seq![','] + jstr(strs[n - 1]@) }
}

// R2: the table is `&[Rc<str>]` in the repository; an immutable owned string either way
pub struct TranslationsFormatter<'a> {
    pub strings: &'a [String],
}

//@@ hex_digit

//@@ push_json_string

impl TranslationsFormatter<'_> {
//@@ to_json
}

} // verus!
fn main() {}
