// Contract file for unit c11_json_writer (properties C11, C09).
// Specification text for /verif; function bodies at `//@@` markers are extracted from /repo.
use vstd::prelude::*;
verus! {

//@INCLUDE json_spec.inc

/// what the property demands of the writer for one character: '"', '\\' and U+0000..U+001F must be
/// escaped, everything else (no-break space, zero-width, astral ...) is written as is
pub open spec fn jesc_char(c: char) -> Seq<char> {
    if c == '"' { seq!['\\', '"'] }
    else if c == '\\' { seq!['\\', '\\'] }
    else if (c as int) < 0x20 { seq!['\\', 'u', '0', '0', hex_digit_spec((c as int) / 16), hex_digit_spec((c as int) % 16)] }
    else { seq![c] }
}

pub open spec fn jesc(s: Seq<char>) -> Seq<char>
    decreases s.len()
{
    if s.len() == 0 { Seq::empty() } else { jesc_char(s[0]) + jesc(s.skip(1)) }
}

pub proof fn lemma_jesc_concat(a: Seq<char>, b: Seq<char>)
    ensures jesc(a + b) =~= jesc(a) + jesc(b)
    decreases a.len()
{
    if a.len() == 0 {
        assert(a + b =~= b);
    } else {
        assert((a + b).skip(1) =~= a.skip(1) + b);
        assert((a + b)[0] == a[0]);
        lemma_jesc_concat(a.skip(1), b);
    }
}

pub proof fn lemma_jesc_push(s: Seq<char>, c: char)
    ensures jesc(s.push(c)) =~= jesc(s) + jesc_char(c)
{
    lemma_jesc_concat(s, seq![c]);
    assert(s.push(c) =~= s + seq![c]);
    assert(seq![c].skip(1) =~= Seq::<char>::empty());
    assert(jesc(seq![c]) =~= jesc_char(c) + jesc(Seq::<char>::empty()));
}

/// C11: decoding what the writer emits gives back exactly the string, for every text
pub proof fn lemma_roundtrip(s: Seq<char>)
    ensures junesc(jesc(s)) == Some(s)
    decreases s.len()
{
    if s.len() == 0 {
    } else {
        let c = s[0];
        let rest = s.skip(1);
        lemma_roundtrip(rest);
        let e = jesc(s);
        assert(e == jesc_char(c) + jesc(rest));
        if c == '"' || c == '\\' {
            assert(e.skip(2) =~= jesc(rest));
            assert(seq![c] + rest =~= s);
        } else if (c as int) < 0x20 {
            lemma_hex((c as int) / 16);
            lemma_hex((c as int) % 16);
            assert(e.skip(6) =~= jesc(rest));
            assert(e[2] == '0' && e[3] == '0');
            let v = 0 * 4096 + 0 * 256 + ((c as int) / 16) * 16 + (c as int) % 16;
            assert(v == c as int);
            assert(v as char == c);
            assert(seq![c] + rest =~= s);
        } else {
            assert(e.skip(1) =~= jesc(rest));
            assert(seq![c] + rest =~= s);
        }
    }
}

/// the emitted body never contains a raw control character, and a quote only right after a backslash
pub proof fn lemma_no_raw(s: Seq<char>, i: int)
    requires 0 <= i < jesc(s).len()
    ensures (jesc(s)[i] as int) >= 0x20,
            jesc(s)[i] == '"' ==> i > 0 && jesc(s)[i - 1] == '\\',
    decreases s.len()
{
    if s.len() == 0 {
    } else {
        let c = s[0];
        let head = jesc_char(c);
        let tail = jesc(s.skip(1));
        assert(jesc(s) == head + tail);
        if i < head.len() {
            if (c as int) < 0x20 && c != '"' && c != '\\' {
                assert(0 <= (c as int) / 16 < 16);
                assert(0 <= (c as int) % 16 < 16);
            }
        } else {
            lemma_no_raw(s.skip(1), i - head.len());
            if tail[i - head.len()] == '"' {
                assert(i - head.len() > 0);
            }
        }
    }
}

/// one JSON string literal
pub open spec fn jstr(s: Seq<char>) -> Seq<char> { seq!['"'] + jesc(s) + seq!['"'] }

/// the texts of a table
pub open spec fn views(strs: Seq<String>) -> Seq<Seq<char>> { Seq::new(strs.len(), |i: int| strs[i]@) }
/// the text of a JSON array of the first n strings (as the writer builds it: appending)
pub open spec fn jarray_body_v(strs: Seq<Seq<char>>, n: int) -> Seq<char>
    decreases n
{
    if n <= 0 { Seq::empty() }
    else if n == 1 { jstr(strs[0]) }
    else { jarray_body_v(strs, n - 1) + seq![','] + jstr(strs[n - 1]) }
}
pub open spec fn jarray_body(strs: Seq<String>, n: int) -> Seq<char> { jarray_body_v(views(strs), n) }

/// scanning an escaped text followed by a quote gives the text back and stops after the quote
pub proof fn lemma_scan(pre: Seq<char>, x: Seq<char>, post: Seq<char>)
    ensures jscan(pre + jesc(x) + seq!['"'] + post, pre.len() as int) == Some((x, (pre.len() + jesc(x).len() + 1) as int)),
    decreases x.len()
{
    hide(jscan);
    let s = pre + jesc(x) + seq!['"'] + post;
    let i = pre.len() as int;
    if x.len() == 0 {
        assert(jesc(x) =~= Seq::<char>::empty());
        assert(s[i] == '"');
        lemma_jscan_quote(s, i);
    } else {
        let c = x[0];
        let rest = x.skip(1);
        let e = jesc_char(c);
        assert(jesc(x) == e + jesc(rest));
        let pre2 = pre + e;
        assert(pre2 + jesc(rest) + seq!['"'] + post =~= s);
        lemma_scan(pre2, rest, post);
        assert(seq![c] + rest =~= x);
        assert(forall|k: int| 0 <= k < e.len() ==> s[i + k] == e[k]);
        if c == '"' || c == '\\' {
            assert(s[i] == '\\' && s[i + 1] == c);
            lemma_jscan_pair(s, i);
        } else if (c as int) < 0x20 {
            lemma_hex((c as int) / 16);
            lemma_hex((c as int) % 16);
            assert(s[i] == '\\' && s[i + 1] == 'u' && s[i + 2] == '0' && s[i + 3] == '0');
            assert(s[i + 4] == hex_digit_spec((c as int) / 16) && s[i + 5] == hex_digit_spec((c as int) % 16));
            assert(hex_val('0') == Some(0int));
            let v = 0 * 4096 + 0 * 256 + ((c as int) / 16) * 16 + (c as int) % 16;
            assert(v == c as int);
            assert(v as char == c);
            lemma_jscan_u(s, i, 0, 0, (c as int) / 16, (c as int) % 16);
        } else {
            assert(s[i] == c);
            lemma_jscan_plain(s, i);
        }
    }
}

/// elements k..n joined by commas, then the closing bracket (as a parser consumes it: from the front)
pub open spec fn jtail(strs: Seq<Seq<char>>, k: int, n: int) -> Seq<char>
    decreases n - k
{
    if k >= n - 1 { jstr(strs[k]) + seq![']'] } else { jstr(strs[k]) + seq![','] + jtail(strs, k + 1, n) }
}
pub open spec fn sep_tail(strs: Seq<Seq<char>>, m: int, n: int) -> Seq<char> {
    if m >= n { seq![']'] } else { seq![','] + jtail(strs, m, n) }
}
pub proof fn lemma_body_tail(strs: Seq<Seq<char>>, m: int, n: int)
    requires 1 <= m <= n <= strs.len(),
    ensures jarray_body_v(strs, m) + sep_tail(strs, m, n) =~= jtail(strs, 0, n),
    decreases m
{
    if m == 1 {
    } else {
        lemma_body_tail(strs, m - 1, n);
        // sep_tail(m-1) = ',' + jstr(s[m-1]) + sep_tail(m)
        assert(sep_tail(strs, m - 1, n) =~= seq![','] + jstr(strs[m - 1]) + sep_tail(strs, m, n));
        assert(jarray_body_v(strs, m) =~= jarray_body_v(strs, m - 1) + seq![','] + jstr(strs[m - 1]));
    }
}
pub proof fn lemma_elems(pre: Seq<char>, strs: Seq<Seq<char>>, k: int, n: int)
    requires 0 <= k < n <= strs.len(),
    ensures jelems(pre + jtail(strs, k, n), pre.len() as int) == Some(strs.subrange(k, n)),
    decreases n - k
{
    hide(jscan); hide(jesc); hide(junesc);
    let s = pre + jtail(strs, k, n);
    let i = pre.len() as int;
    let x = strs[k];
    let after = if k >= n - 1 { seq![']'] } else { seq![','] + jtail(strs, k + 1, n) };
    assert(jtail(strs, k, n) =~= seq!['"'] + jesc(x) + seq!['"'] + after);
    let pre2 = pre + seq!['"'];
    assert(s =~= pre2 + jesc(x) + seq!['"'] + after);
    lemma_scan(pre2, x, after);
    let j = (pre2.len() + jesc(x).len() + 1) as int;
    assert(s[i] == '"');
    assert(jscan(s, i + 1) == Some((x, j)));
    assert(s[j] == after[0]);
    if k >= n - 1 {
        assert(j + 1 == s.len());
        assert(strs.subrange(k, n) =~= seq![x]);
    } else {
        let pre3 = pre2 + jesc(x) + seq!['"'] + seq![','];
        assert(s =~= pre3 + jtail(strs, k + 1, n));
        lemma_elems(pre3, strs, k + 1, n);
        assert(pre3.len() == j + 1);
        assert(strs.subrange(k, n) =~= seq![x] + strs.subrange(k + 1, n));
    }
}
/// C11: the text the writer builds for n strings parses as a JSON array of exactly those strings
pub proof fn lemma_array_roundtrip(strs: Seq<Seq<char>>, n: int)
    requires 0 <= n <= strs.len(),
    ensures jarray(seq!['['] + jarray_body_v(strs, n) + seq![']']) == Some(strs.subrange(0, n)),
{
    let s = seq!['['] + jarray_body_v(strs, n) + seq![']'];
    if n == 0 {
        assert(s =~= seq!['[', ']']);
        assert(strs.subrange(0, 0) =~= Seq::<Seq<char>>::empty());
    } else {
        lemma_body_tail(strs, n, n);
        assert(s =~= seq!['['] + jtail(strs, 0, n));
        lemma_elems(seq!['['], strs, 0, n);
        assert(jstr(strs[0]).len() >= 2);
        assert(s.len() > 2);
    }
}


// R2: the table is `&[Rc<str>]` in the repository; an immutable owned string either way
pub struct TranslationsFormatter<'a> {
    pub strings: &'a [String],
}

//@@ hex_digit

//@@ push_json_string

impl TranslationsFormatter<'_> {
//@@ to_json
}

} // verus!
fn main() {}
