// Contract file for unit c03_merge (properties C03, C08, C11, C07): ParsedValue::merge -- what one locale's
// value of a key does to the default locale's record of that key.  This is the function between
// check_locales_inner (which picks the DefaultTo, unit c11_check_locales) and DefaultedLocales (unit
// c03_defaulted), and the place where each locale's value is fed to the same accumulator (unit c08_get_keys).
use vstd::prelude::*;
use std::collections::{BTreeMap, BTreeSet};
verus! {

// ---- R1 shims ----
#[derive(PartialEq, Eq, PartialOrd, Ord)]
pub struct Key { pub id: u64 }
impl Clone for Key { fn clone(&self) -> (r: Key) ensures r == *self { Key { id: self.id } } }
#[derive(PartialEq, Eq, PartialOrd, Ord, Clone, Copy)]
pub struct Formatter { pub id: u8 }
#[verifier::external_body] pub struct KeyPath { _p: u8 }
impl Default for KeyPath { #[verifier::external_body] fn default() -> KeyPath { unimplemented!() } }
#[verifier::external_body] pub struct Warnings { _p: u8 }
#[verifier::external_body] pub struct StringIndexer { _p: u8 }
#[verifier::external_body] pub struct RangesBody { _p: u8 }
pub struct Ranges { pub count_key: Key, pub inner: RangesBody }
#[verifier::external_body] pub struct ForeignKeyCell { _p: u8 }
pub enum Error {
    SubKeyMissmatch { locale: Key, key_path: KeyPath },
    Other,
}
pub type Result<T> = core::result::Result<T, Box<Error>>;
pub assume_specification<T>[ <Box<T> as From<T>>::from ](t: T) -> (b: Box<T>) ensures *b == t;
pub assume_specification<T: Default>[ std::mem::take::<T> ](d: &mut T) -> (r: T) ensures r == *old(d);

// T1 copies
//@@ range_type_enum
//@@ range_or_plural_enum
//@@ var_info_struct
//@@ interpolation_keys_struct
impl Default for InterpolationKeys {
    fn default() -> (r: InterpolationKeys) ensures r.components@ == Set::<Key>::empty(), r.variables@ == Map::<Key, VarInfo>::empty() { InterpolationKeys { components: BTreeSet::new(), variables: BTreeMap::new() } }
}
//@@ literal_type_enum
//@@ interpol_or_lit_enum
//@@ literal_enum
//@@ plural_rule_type_enum
//@@ plural_form_enum
//@@ plurals_struct
//@@ parsed_value_enum
//@@ defaulted_struct
//@@ default_to_enum
//@@ locale_struct
//@@ locale_value_enum
//@@ builders_keys_inner_struct

pub open spec fn key_of(d: DefaultTo) -> Key { match d { DefaultTo::Explicit(k) => *k, DefaultTo::Implicit(k) => *k } }
pub open spec fn lit_type(l: Literal) -> LiteralType {
    match l { Literal::String(_, _) => LiteralType::String, Literal::Signed(_) => LiteralType::Signed,
              Literal::Unsigned(_) => LiteralType::Unsigned, Literal::Float(_) => LiteralType::Float, Literal::Bool(_) => LiteralType::Bool }
}
pub open spec fn var_set(k: InterpolOrLit) -> Set<Key> { match k { InterpolOrLit::Interpol(i) => i.variables@.dom(), InterpolOrLit::Lit(_) => Set::empty() } }
pub open spec fn comp_set(k: InterpolOrLit) -> Set<Key> { match k { InterpolOrLit::Interpol(i) => i.components@, InterpolOrLit::Lit(_) => Set::empty() } }

/// what ParsedValue::reduce makes of a value (flattening of blocs, inlining of resolved foreign keys): not
/// verified; only these facts are used
pub uninterp spec fn reduced(p: ParsedValue) -> ParsedValue;
pub broadcast axiom fn axiom_reduced_default(p: ParsedValue)
    ensures p is Default ==> #[trigger] reduced(p) is Default;
/// "every variable / component of p is required by new_k, and new_k requires all old_k did":
/// the postcondition of get_keys_inner proved in unit c08_get_keys
pub uninterp spec fn covers(old_k: InterpolOrLit, new_k: InterpolOrLit, p: ParsedValue) -> bool;
/// postcondition of index_strings proved in unit c11_index_traversal (pv_ok over the table)
pub uninterp spec fn indexed(p: ParsedValue, s: StringIndexer) -> bool;
pub uninterp spec fn lit_indexed(l: Literal, s: StringIndexer) -> bool;

impl ParsedValue {
    #[verifier::external_body]
    pub fn reduce(&mut self) ensures *final(self) == reduced(*old(self)) { unimplemented!() }
    // cross-unit edges
    #[verifier::external_body]
    pub fn index_strings(&mut self, strings: &mut StringIndexer)
        ensures indexed(*final(self), *final(strings)),
            // indexing only writes indices into string literals: the kind of value does not change
            *old(self) is Bloc ==> *final(self) is Bloc, *old(self) is Component ==> *final(self) is Component,
            *old(self) is Ranges ==> *final(self) is Ranges, *old(self) is Variable ==> *final(self) is Variable,
            *old(self) is Plurals ==> *final(self) is Plurals, *old(self) is ForeignKey ==> *final(self) is ForeignKey,
    { unimplemented!() }
    #[verifier::external_body]
    pub fn get_keys_inner(&self, key_path: &mut KeyPath, keys: &mut InterpolOrLit, is_top: bool) -> (r: Result<()>)
        ensures r is Ok ==> covers(*old(keys), *final(keys), *self),
    { unimplemented!() }
}
impl Literal {
    #[verifier::external_body]
    pub fn index_strings(&mut self, strings: &mut StringIndexer)
        ensures lit_indexed(*final(self), *final(strings)), lit_type(*final(self)) == lit_type(*old(self)),
    { unimplemented!() }
//@@ literal_get_type
}
impl DefaultedLocales {
    // contract proved in unit c03_defaulted
    #[verifier::external_body]
    pub fn push(&mut self, key: Key, default_to: Key)
        ensures final(self).mapping@ == old(self).mapping@.insert(key, default_to), final(self).default_locale == old(self).default_locale,
    { unimplemented!() }
}
impl DefaultTo<'_> {
    // contract proved in unit c03_defaulted
    #[verifier::external_body]
    pub fn get_key(self) -> (r: Key) ensures r == key_of(self) { unimplemented!() }
}
/// ghost names for "the locale being merged" and "the fallback chosen for it" of the current call: they let the
/// contract say that a whole subkey group is handed the SAME locale and the SAME fallback (C03: the rule is applied
/// uniformly, including whole subkey groups)
pub uninterp spec fn the_top_locale() -> Key;
pub uninterp spec fn the_fallback_key() -> Key;
pub uninterp spec fn the_fallback_is_explicit() -> bool;
pub open spec fn same_fallback(top_locale: Key, default_to: DefaultTo) -> bool {
    top_locale == the_top_locale() && key_of(default_to) == the_fallback_key() && (default_to is Explicit) == the_fallback_is_explicit()
}
impl Locale {
    // the recursion into a subkey group: Locale::merge is not verified (BTreeMap entry API); it calls
    // ParsedValue::merge for every key of the group with the locale and fallback it was given
    #[verifier::external_body]
    pub fn merge(&mut self, keys: &mut BuildersKeysInner, top_locale: Key, default_to: DefaultTo, key_path: &mut KeyPath,
                 strings: &mut StringIndexer, warnings: &Warnings) -> Result<()>
        requires same_fallback(top_locale, default_to),
    { unimplemented!() }
}
// A4: `default_locale.keys.keys().cloned().map(|k| (k, ParsedValue::Default)).collect()` -- the same keys,
// each mapped to ParsedValue::Default (iterator adapter chain, no verifier semantics)
#[verifier::external_body]
pub fn all_keys_defaulted(keys: &BTreeMap<Key, ParsedValue>) -> (r: BTreeMap<Key, ParsedValue>)
    ensures r@.dom() == keys@.dom(), forall|k: Key| r@.contains_key(k) ==> #[trigger] r@[k] is Default,
{ unimplemented!() }

impl ParsedValue {
//@@ merge
}

} // verus!
fn main() {}
