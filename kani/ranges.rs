// Kani harnesses for leptos_i18n_parser::parse_locales::ranges  (properties C04, C09).
// Compiled as a child module of ranges.rs under cfg(kani) only (hook, see MANIFEST.hooks), so the
// private `Range::do_match` is called directly: the code under proof is the code that runs.
//
// Every harness is loop-free and symbolic over the *whole* domain of its operands: a pass is a
// complete proof for that function / shape, not a bounded run.
#![allow(warnings)]
use super::*;
use core::ops::RangeBounds;

/// Oracle from the property statement: "bounds mean what they mean in Rust".
/// `(lo, hi).contains(&n)` is std's `RangeBounds::contains` on a pair of `Bound`s.
fn rust_bounds_contains<T: PartialOrd + Copy>(start: Option<T>, end: Bound<T>, n: T) -> bool {
    let lo = match start {
        Some(s) => Bound::Included(s),
        None => Bound::Unbounded,
    };
    (lo, end).contains(&n)
}

// ---- range_end_bound: the function contract sits on the real method (kani::ensures in ranges.rs) ----
macro_rules! end_bound_contract {
    ($($name:ident : $t:ty),*) => {$(
        #[kani::proof_for_contract(<$t as RangeNumber>::range_end_bound)]
        fn $name() {
            let v: $t = kani::any();
            let _ = <$t as RangeNumber>::range_end_bound(v);
        }
    )*};
}
end_bound_contract!(end_bound_i8: i8, end_bound_i16: i16, end_bound_i32: i32, end_bound_i64: i64,
    end_bound_u8: u8, end_bound_u16: u16, end_bound_u32: u32, end_bound_u64: u64,
    end_bound_f32: f32, end_bound_f64: f64);

// ---- the exclusive -> inclusive rewrite keeps Rust's meaning of `a..b` -----------------------------
// For every start s, count n and exclusive end e:  Range::new("s..e") stores
// Bounds{start: Some(s), end: range_end_bound(e)}; matching that must equal `(s..e).contains(&n)`.
macro_rules! exclusive_end_lemma {
    ($($name:ident : $t:ty),*) => {$(
        #[kani::proof]
        #[kani::unwind(1)]
        fn $name() {
            let s: Option<$t> = kani::any();
            let n: $t = kani::any();
            let e: $t = kani::any();
            match <$t as RangeNumber>::range_end_bound(e) {
                Some(end) => {
                    let r: Range<$t> = Range::Bounds { start: s, end };
                    let got = r.do_match(n);
                    core::mem::forget(r);
                    let want = match s { Some(s) => (s..e).contains(&n), None => (..e).contains(&n) };
                    assert!(got == want);
                }
                // rejected by Range::new as InvalidBoundEnd: `..MIN` is empty anyway
                None => { assert!(!(..e).contains(&n)); }
            }
        }
    )*};
}
exclusive_end_lemma!(excl_end_i8: i8, excl_end_i16: i16, excl_end_i32: i32, excl_end_i64: i64,
    excl_end_u8: u8, excl_end_u16: u16, excl_end_u32: u32, excl_end_u64: u64);

// ---- do_match, one harness per concrete shape, all operands symbolic -----------------------------
// `#[kani::unwind(1)]` with Kani's unwinding assertions ON (the default): the recursive `Multiple`
// arm must be *proved* unreachable for the shape at hand, so a pass is complete, not bounded.
// Without the bound CBMC keeps unwinding that arm for 64-bit payload types (measured: > 240 s).
// (a symbolic discriminant or a `Multiple` value does not terminate in CBMC: DESIGN 3/C04)
macro_rules! do_match_shapes {
    ($m:ident, $t:ty, $nan_free:expr) => {
        mod $m {
            use super::*;
            fn ok(x: $t) -> bool { let f: fn($t) -> bool = $nan_free; f(x) }

            // vacuity guard: the precondition used by the harnesses below is satisfiable
            #[kani::proof]
            fn precondition_satisfiable() {
                let a: $t = kani::any();
                let b: $t = kani::any();
                let c: $t = kani::any();
                kani::cover!(ok(a) && ok(b) && ok(c) && a < b && b < c);
            }

            #[kani::proof]
            #[kani::unwind(1)]
            fn exact() {
                let v: $t = kani::any();
                let n: $t = kani::any();
                kani::assume(ok(v) && ok(n));
                let r: Range<$t> = Range::Exact(v);
                let got = r.do_match(n);
                core::mem::forget(r);
                assert!(got == (v == n));
            }

            #[kani::proof]
            #[kani::unwind(1)]
            fn fallback() {
                let n: $t = kani::any();
                let r: Range<$t> = Range::Fallback;
                let got = r.do_match(n);
                core::mem::forget(r);
                assert!(got);
            }

            // The value is built literally in each harness: CBMC must see a constant discriminant,
            // otherwise it unwinds the recursive `Multiple` arm without end (measured).
            #[kani::proof]
            #[kani::unwind(1)]
            fn bounds_none_included() {
                let n: $t = kani::any();
                let e: $t = kani::any();
                kani::assume(ok(n) && ok(e));
                let r: Range<$t> = Range::Bounds { start: None, end: Bound::Included(e) };
                let got = r.do_match(n);
                core::mem::forget(r);
                assert!(got == rust_bounds_contains(None, Bound::Included(e), n));
                assert!(got == (..=e).contains(&n));
            }
            #[kani::proof]
            #[kani::unwind(1)]
            fn bounds_none_excluded() {
                let n: $t = kani::any();
                let e: $t = kani::any();
                kani::assume(ok(n) && ok(e));
                let r: Range<$t> = Range::Bounds { start: None, end: Bound::Excluded(e) };
                let got = r.do_match(n);
                core::mem::forget(r);
                assert!(got == rust_bounds_contains(None, Bound::Excluded(e), n));
                assert!(got == (..e).contains(&n));
            }
            #[kani::proof]
            #[kani::unwind(1)]
            fn bounds_none_unbounded() {
                let n: $t = kani::any();
                kani::assume(ok(n));
                let r: Range<$t> = Range::Bounds { start: None, end: Bound::Unbounded };
                let got = r.do_match(n);
                core::mem::forget(r);
                assert!(got);
            }
            #[kani::proof]
            #[kani::unwind(1)]
            fn bounds_some_included() {
                let n: $t = kani::any();
                let s: $t = kani::any();
                let e: $t = kani::any();
                kani::assume(ok(n) && ok(s) && ok(e));
                let r: Range<$t> = Range::Bounds { start: Some(s), end: Bound::Included(e) };
                let got = r.do_match(n);
                core::mem::forget(r);
                assert!(got == rust_bounds_contains(Some(s), Bound::Included(e), n));
                assert!(got == (s..=e).contains(&n));
            }
            #[kani::proof]
            #[kani::unwind(1)]
            fn bounds_some_excluded() {
                let n: $t = kani::any();
                let s: $t = kani::any();
                let e: $t = kani::any();
                kani::assume(ok(n) && ok(s) && ok(e));
                let r: Range<$t> = Range::Bounds { start: Some(s), end: Bound::Excluded(e) };
                let got = r.do_match(n);
                core::mem::forget(r);
                assert!(got == rust_bounds_contains(Some(s), Bound::Excluded(e), n));
                assert!(got == (s..e).contains(&n));
            }
            #[kani::proof]
            #[kani::unwind(1)]
            fn bounds_some_unbounded() {
                let n: $t = kani::any();
                let s: $t = kani::any();
                kani::assume(ok(n) && ok(s));
                let r: Range<$t> = Range::Bounds { start: Some(s), end: Bound::Unbounded };
                let got = r.do_match(n);
                core::mem::forget(r);
                assert!(got == rust_bounds_contains(Some(s), Bound::Unbounded, n));
                assert!(got == (s..).contains(&n));
            }
        }
    };
}
do_match_shapes!(dm_i8, i8, |_| true);
do_match_shapes!(dm_i16, i16, |_| true);
do_match_shapes!(dm_i32, i32, |_| true);
do_match_shapes!(dm_i64, i64, |_| true);
do_match_shapes!(dm_u8, u8, |_| true);
do_match_shapes!(dm_u16, u16, |_| true);
do_match_shapes!(dm_u32, u32, |_| true);
do_match_shapes!(dm_u64, u64, |_| true);
// floats: no operand is NaN (precondition, reported as an assumption; `cover!` shows it is satisfiable)
do_match_shapes!(dm_f32, f32, |x| !x.is_nan());
do_match_shapes!(dm_f64, f64, |x| !x.is_nan());


// ---- the `Multiple` arm (`a | b`, count lists): two children of fixed shapes, all operands symbolic ----
macro_rules! do_match_multiple {
    ($m:ident, $t:ty) => {
        mod $m {
            use super::*;
            #[kani::proof]
            #[kani::unwind(3)]
            fn exact_or_bounds() {
                let n: $t = kani::any();
                let a: $t = kani::any();
                let s: $t = kani::any();
                let e: $t = kani::any();
                let r: Range<$t> = Range::Multiple(vec![
                    Range::Exact(a),
                    Range::Bounds { start: Some(s), end: Bound::Included(e) },
                ]);
                let got = r.do_match(n);
                core::mem::forget(r);
                assert!(got == (n == a || (s..=e).contains(&n)));
            }
            #[kani::proof]
            #[kani::unwind(4)]
            fn three_children() {
                let n: $t = kani::any();
                let a: $t = kani::any();
                let b: $t = kani::any();
                let e: $t = kani::any();
                let r: Range<$t> = Range::Multiple(vec![
                    Range::Exact(a),
                    Range::Bounds { start: None, end: Bound::Excluded(e) },
                    Range::Exact(b),
                ]);
                let got = r.do_match(n);
                core::mem::forget(r);
                assert!(got == (n == a || (..e).contains(&n) || n == b));
            }
        }
    };
}
// BOUNDED in the number and shapes of the children (labelled so in the evidence)
do_match_multiple!(dmm_i8, i8);
do_match_multiple!(dmm_i16, i16);
do_match_multiple!(dmm_i32, i32);
do_match_multiple!(dmm_i64, i64);
do_match_multiple!(dmm_u8, u8);
do_match_multiple!(dmm_u16, u16);
do_match_multiple!(dmm_u32, u32);
do_match_multiple!(dmm_u64, u64);

// ---- number count forms: RangeNumber::from_i64 / from_u64 / from_f64 (serde visitors of counts) -----
// An integer count written as a JSON/YAML number is accepted exactly when it is a value of the range
// type, and then denotes that value; a float literal is never accepted for an integer range.
macro_rules! int_count_forms {
    ($($name:ident : $t:ty),*) => {$(
        #[kani::proof]
        fn $name() {
            let i: i64 = kani::any();
            match <$t as RangeNumber>::from_i64(i) {
                Some(x) => assert!(x as i128 == i as i128),
                None => assert!((i as i128) < (<$t>::MIN as i128) || (i as i128) > (<$t>::MAX as i128)),
            };
            let u: u64 = kani::any();
            match <$t as RangeNumber>::from_u64(u) {
                Some(x) => assert!(x as i128 == u as i128),
                None => assert!((u as i128) > (<$t>::MAX as i128)),
            };
            let f: f64 = kani::any();
            assert!(<$t as RangeNumber>::from_f64(f).is_none());
        }
    )*};
}
int_count_forms!(count_forms_i8: i8, count_forms_i16: i16, count_forms_i32: i32, count_forms_i64: i64,
    count_forms_u8: u8, count_forms_u16: u16, count_forms_u32: u32, count_forms_u64: u64);

/// f64 ranges take a float literal unchanged (bit for bit) and an integer literal as Rust's `as f64`
#[kani::proof]
fn count_forms_f64() {
    let f: f64 = kani::any();
    assert!(<f64 as RangeNumber>::from_f64(f).map(f64::to_bits) == Some(f.to_bits()));
    let i: i64 = kani::any();
    assert!(<f64 as RangeNumber>::from_i64(i) == Some(i as f64));
    // integers up to 2^53 are represented exactly
    if i.unsigned_abs() <= (1u64 << 53) {
        assert!(<f64 as RangeNumber>::from_i64(i).unwrap() as i64 == i);
    }
}

// ---- check_de_inner: fallback position / multiplicity / "floats need a fallback" (BOUNDED: <= 3 branches) ----
fn any_shape_i32(k: u8) -> Range<i32> {
    // the shapes that matter to check_de_inner: a plain branch, a fallback, a list holding a fallback, a list without
    match k {
        0 => Range::Exact(kani::any()),
        1 => Range::Fallback,
        2 => Range::Multiple(vec![Range::Exact(kani::any()), Range::Fallback]),
        _ => Range::Multiple(vec![Range::Exact(kani::any()), Range::Exact(kani::any())]),
    }
}
fn is_fallback_like(k: u8) -> bool { k == 1 || k == 2 }

macro_rules! check_de_harness {
    ($name:ident, $n:expr) => {
        #[kani::proof]
        #[kani::unwind(6)]
        fn $name() {
            let ks: [u8; $n] = kani::any();
            let mut v: Vec<(Range<i32>, ParsedValue)> = Vec::new();
            let mut i = 0;
            while i < $n {
                kani::assume(ks[i] < 4);
                v.push((any_shape_i32(ks[i]), ParsedValue::Default));
                i += 1;
            }
            let (invalid_fallback, fallback_count, should_have_fallback) = Ranges::check_de_inner::<i32>(&v);
            core::mem::forget(v);
            // a fallback (bare or inside a `|` list) anywhere but in the last branch is invalid
            let mut want_invalid = false;
            let mut want_count = 0usize;
            let mut i = 0;
            while i < $n {
                if i + 1 < $n && is_fallback_like(ks[i]) { want_invalid = true; }
                if ks[i] == 1 { want_count += 1; }
                i += 1;
            }
            assert!(invalid_fallback == want_invalid);
            assert!(fallback_count == want_count);
            assert!(!should_have_fallback);
        }
    };
}
check_de_harness!(check_de_1, 1);
check_de_harness!(check_de_2, 2);
check_de_harness!(check_de_3, 3);
check_de_harness!(check_de_4, 4);

#[kani::proof]
fn should_have_fallback_is_float_only() {
    assert!(RangeType::F32.should_have_fallback() && RangeType::F64.should_have_fallback());
    assert!(!RangeType::I8.should_have_fallback() && !RangeType::I16.should_have_fallback() && !RangeType::I32.should_have_fallback()
        && !RangeType::I64.should_have_fallback() && !RangeType::U8.should_have_fallback() && !RangeType::U16.should_have_fallback()
        && !RangeType::U32.should_have_fallback() && !RangeType::U64.should_have_fallback());
}

// ---- `Multiple` with two children of SYMBOLIC flat shape (bounded: 2 children, depth 1) ----
macro_rules! do_match_multiple_sym {
    ($m:ident, $t:ty) => {
        mod $m {
            use super::*;
            fn any_flat() -> (Range<$t>, u8, $t, $t) {
                let k: u8 = kani::any();
                let a: $t = kani::any();
                let b: $t = kani::any();
                kani::assume(k < 5);
                let r = match k {
                    0 => Range::Exact(a),
                    1 => Range::Bounds { start: Some(a), end: Bound::Included(b) },
                    2 => Range::Bounds { start: None, end: Bound::Excluded(b) },
                    3 => Range::Bounds { start: Some(a), end: Bound::Unbounded },
                    _ => Range::Fallback,
                };
                (r, k, a, b)
            }
            fn want(k: u8, a: $t, b: $t, n: $t) -> bool {
                match k { 0 => n == a, 1 => (a..=b).contains(&n), 2 => (..b).contains(&n), 3 => (a..).contains(&n), _ => true }
            }
            #[kani::proof]
            #[kani::unwind(3)]
            fn two_symbolic_children() {
                let n: $t = kani::any();
                let (r0, k0, a0, b0) = any_flat();
                let (r1, k1, a1, b1) = any_flat();
                let r: Range<$t> = Range::Multiple(vec![r0, r1]);
                let got = r.do_match(n);
                core::mem::forget(r);
                assert!(got == (want(k0, a0, b0, n) || want(k1, a1, b1, n)));
            }
        }
    };
}
do_match_multiple_sym!(dms_i8, i8);
do_match_multiple_sym!(dms_i16, i16);
do_match_multiple_sym!(dms_i32, i32);
do_match_multiple_sym!(dms_i64, i64);
do_match_multiple_sym!(dms_u8, u8);
do_match_multiple_sym!(dms_u16, u16);
do_match_multiple_sym!(dms_u32, u32);
do_match_multiple_sym!(dms_u64, u64);
