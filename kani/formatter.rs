// Kani harnesses for leptos_i18n_parser::utils::formatter  (property C18) -- BOUNDED.
// Compiled as a child module of formatter.rs under cfg(kani) only.
//
// The real, generic `from_args` / `from_args_helper` / `Formatter::from_name_and_args` are
// instantiated with `S = &str`, each string drawn by a symbolic index from a small closed universe per
// option (its own argument name, another option's name, junk; every documented value, junk, "").  Argument lists are symbolic in length
// (0..=N) and content.  Bound: list length N (quick 2, thorough 3); `#[kani::unwind]` with
// unwinding assertions on.  Labelled bounded in the evidence, never counted as proved.
#![allow(warnings)]
use super::*;

/// names: index 0 is the option's own argument name, 1 another option's name, 2 junk
/// values: the documented values of the option in declaration order, then junk, then ""
macro_rules! from_args_harness {
    ($name:ident, $n:expr, $t:ty, $own:literal, $other:literal, [$($val:literal => $variant:expr),*], $default:expr) => {
        // one harness per exact list length $n (0 = `Some(&[])` and `None`)
        // (own module: a concrete-playback test written next to the harness must not be duplicated
        //  by the other instantiations of this macro)
        mod $name {
        use super::*;
        #[kani::proof]
        #[kani::unwind(20)]
        fn check() {
            const NAMES: [&str; 3] = [$own, $other, "bogus"];
            const VALS: &[&str] = &[$($val,)* "bogus", ""];
            const DECODED: &[Option<$t>] = &[$(Some($variant),)* None, None];
            let ni: [usize; $n] = kani::any();
            let vi: [usize; $n] = kani::any();
            let mut args: [(&'static str, &'static str); $n] = [("", ""); $n];
            let mut k = 0;
            while k < $n {
                kani::assume(ni[k] < NAMES.len() && vi[k] < VALS.len());
                args[k] = (NAMES[ni[k]], VALS[vi[k]]);
                k += 1;
            }
            let got = if $n == 0 && kani::any() { <$t>::from_args::<&str>(None) } else { <$t>::from_args(Some(&args[..])) };
            // expected, from the statement: the first pair with this option's name and a recognised
            // value decides; otherwise the documented default
            let mut want = $default;
            let mut found = false;
            let mut k = 0;
            while k < $n {
                if !found && ni[k] == 0 {
                    if let Some(x) = DECODED[vi[k]] {
                        want = x;
                        found = true;
                    }
                }
                k += 1;
            }
            assert!(got == want);
        }
        }
    };
}

macro_rules! all_from_args {
    ($n:expr, $dl:ident, $tl:ident, $w:ident, $g:ident, $lt:ident, $ls:ident) => {
        from_args_harness!($dl, $n, DateLength, "date_length", "time_length",
            ["full" => DateLength::Full, "long" => DateLength::Long, "medium" => DateLength::Medium, "short" => DateLength::Short], DateLength::Medium);
        from_args_harness!($tl, $n, TimeLength, "time_length", "date_length",
            ["full" => TimeLength::Full, "long" => TimeLength::Long, "medium" => TimeLength::Medium, "short" => TimeLength::Short], TimeLength::Short);
        from_args_harness!($w, $n, CurrencyWidth, "width", "currency_code",
            ["short" => CurrencyWidth::Short, "narrow" => CurrencyWidth::Narrow], CurrencyWidth::Short);
        from_args_harness!($g, $n, GroupingStrategy, "grouping_strategy", "width",
            ["auto" => GroupingStrategy::Auto, "never" => GroupingStrategy::Never, "always" => GroupingStrategy::Always, "min2" => GroupingStrategy::Min2], GroupingStrategy::Auto);
        from_args_harness!($lt, $n, ListType, "list_type", "list_style",
            ["and" => ListType::And, "or" => ListType::Or, "unit" => ListType::Unit], ListType::Unit);
        from_args_harness!($ls, $n, ListStyle, "list_style", "list_type",
            ["wide" => ListStyle::Wide, "short" => ListStyle::Short, "narrow" => ListStyle::Narrow], ListStyle::Wide);
    };
}
// quick tier: lists of exactly 0, 1, 2 arguments; thorough tier adds 3
all_from_args!(0, date_length_0, time_length_0, width_0, grouping_0, list_type_0, list_style_0);
all_from_args!(1, date_length_1, time_length_1, width_1, grouping_1, list_type_1, list_style_1);
all_from_args!(2, date_length_2, time_length_2, width_2, grouping_2, list_type_2, list_style_2);
all_from_args!(3, date_length_3, time_length_3, width_3, grouping_3, list_type_3, list_style_3);

/// name dispatch: each documented formatter name selects the documented variant built from the
/// per-option `from_args`; an unknown name selects nothing; with no format_* feature compiled in
/// (this build) the result is `Ok` exactly when SKIP_ICU_CFG is set, else `Err(the formatter)`.
#[kani::proof]
#[kani::unwind(20)]
fn name_dispatch_1() {
    let skip: bool = kani::any();
    let _g = SkipIcuCfgGuard::new(skip);
    const FNAMES: [&str; 8] = ["currency", "number", "datetime", "date", "time", "list", "bogus", "Date"];
    const VALS: [&str; 5] = ["full", "long", "medium", "short", "bogus"];
    let which: usize = kani::any();
    kani::assume(which < 8);
    let v0: usize = kani::any();
    kani::assume(v0 < 5);
    let args = [("date_length", VALS[v0])];
    let r = Formatter::from_name_and_args(FNAMES[which], Some(&args[..]));
    let dl = match v0 { 0 => DateLength::Full, 1 => DateLength::Long, 2 => DateLength::Medium, 3 => DateLength::Short, _ => DateLength::Medium };
    let want = match which {
        0 => Some(Formatter::Currency(CurrencyWidth::Short, CurrencyCode::default())),
        1 => Some(Formatter::Number(GroupingStrategy::Auto)),
        2 => Some(Formatter::DateTime(dl, TimeLength::Short)),
        3 => Some(Formatter::Date(dl)),
        4 => Some(Formatter::Time(TimeLength::Short)),
        5 => Some(Formatter::List(ListType::Unit, ListStyle::Wide)),
        _ => None,
    };
    let any_feature = cfg!(feature = "format_currency") || cfg!(feature = "format_nums")
        || cfg!(feature = "format_datetime") || cfg!(feature = "format_list");
    match (want, r) {
        (None, Ok(None)) => {}
        (Some(w), Ok(Some(g))) => { assert!((skip || any_feature) && w == g); }
        (Some(w), Err(g)) => { assert!(!skip && w == g); }
        _ => { assert!(false); }
    }
}
