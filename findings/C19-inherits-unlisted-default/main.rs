use leptos_i18n_parser::parse_locales::cfg_file::ConfigFile;
fn main() {
    let mut dir = std::path::PathBuf::from(std::env::args().nth(1).unwrap());
    match ConfigFile::new(&mut dir) {
        Ok(cfg) => { println!("accepted: locales={:?} inherits={:?}", cfg.locales, cfg.extensions); }
        Err(e) => { println!("REJECTED: {:?}", e); std::process::exit(1); }
    }
}
