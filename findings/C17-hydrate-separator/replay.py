#!/usr/bin/env python3
"""Replays the text-building statements of `init_translations` (feature `hydrate`, leptos_i18n/src/fetch_translations.rs)
natively: the statement range is lifted mechanically (tools/vx.py, rule E3: the same lift the Verus unit uses) from the
given source tree into a small program next to verbatim copies of hex_digit / push_js_string, with two-method stand-ins
for the Locale / TranslationUnitId traits, and run on two units.  Exit 0 = the emitted script is a valid array of two
objects, exit 1 = it is not.      usage: replay.py [REPO]   (default /repo)"""
import json
import os
import subprocess
import sys
import tempfile

ROOT = os.path.dirname(os.path.dirname(os.path.dirname(os.path.abspath(__file__))))
sys.path.insert(0, os.path.join(ROOT, "tools"))
import vx  # noqa: E402

repo = sys.argv[1] if len(sys.argv) > 1 else "/repo"
F = "leptos_i18n/src/fetch_translations.rs"
report = []
block = vx.extract_one(repo, {
    "name": "hydrate_script", "kind": "block", "file": F, "path": ["^fn init_translations"],
    "statement": 'let mut buff = String::from("window.__LEPTOS_I18N_TRANSLATIONS = [");',
    "until": 'buff.push_str("];");',
    "wrap_head": "pub fn hydrate_script<L: Locale>(translations: Vec<Trans<L, L::TranslationUnitId>>) -> String",
    "wrap_tail": "buff",
    "rewrite": [{"id": "R1", "pattern": "crate::locale_traits::TranslationUnitId::to_str(id)",
                 "replace": "TranslationUnitId::to_str(id)", "count": 1, "why": "module path of the trait"}],
}, report)
fns = [vx.extract_one(repo, {"name": n, "file": F, "path": ["fn " + n]}, report) for n in ("hex_digit", "push_js_string")]
text = lambda x: x if isinstance(x, str) else x[0]
prog = '''
pub trait TranslationUnitId: Copy { fn to_str(self) -> Option<&'static str>; }
pub trait Locale: Copy { type TranslationUnitId: TranslationUnitId; fn as_str(self) -> &'static str;
    fn init_translations(self, _id: Self::TranslationUnitId, _values: Vec<Box<str>>) {} }
pub struct Trans<L, Id> { pub locale: L, pub id: Id, pub values: Vec<Box<str>> }
#[derive(Clone, Copy)] struct En;
#[derive(Clone, Copy)] struct Ns(&'static str);
impl TranslationUnitId for Ns { fn to_str(self) -> Option<&'static str> { Some(self.0) } }
impl Locale for En { type TranslationUnitId = Ns; fn as_str(self) -> &'static str { "en" } }
%s
fn main() {
    let t = vec![Trans { locale: En, id: Ns("a"), values: vec!["x".into(), "y".into()] },
                 Trans { locale: En, id: Ns("b"), values: vec!["z".into()] }];
    print!("{}", hydrate_script::<En>(t));
}
''' % "\n".join(text(x) for x in fns + [block])
with tempfile.TemporaryDirectory(dir="/var/tmp") as d:
    open(os.path.join(d, "m.rs"), "w").write(prog)
    c = subprocess.run(["rustc", "--edition", "2021", "-A", "warnings", "-o", os.path.join(d, "m"), os.path.join(d, "m.rs")],
                       capture_output=True, text=True)
    if c.returncode:
        print(c.stderr[-2000:])
        sys.exit(2)
    out = subprocess.run([os.path.join(d, "m")], capture_output=True, text=True).stdout
print("emitted:", out)
pre, post = "window.__LEPTOS_I18N_TRANSLATIONS = ", ";"
try:
    v = json.loads(out[len(pre):-len(post)])
    ok = out.startswith(pre) and out.endswith(post) and [u["values"] for u in v] == [["x", "y"], ["z"]]
except Exception as e:
    print("not a valid array literal:", e)
    ok = False
print("OK" if ok else "DEFECT: the re-emitted script is not the array of the two received units")
sys.exit(0 if ok else 1)
