fn main() {
    let dir = std::path::PathBuf::from(std::env::args().nth(1).unwrap());
    match leptos_i18n_parser::parse_locales::parse_locales(false, Some(dir)) {
        Ok(_) => println!("accepted"),
        Err(e) => println!("descriptive error: {}", e),
    }
}
