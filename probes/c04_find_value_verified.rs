use vstd::prelude::*;
use std::collections::BTreeMap;
verus! {

// ---- shims for types the extracted function mentions (assumptions) ----
#[verifier::external_body]
pub struct ParsedValue { _p: u8 }
#[verifier::external_body]
pub struct KeyPath { _p: u8 }
#[verifier::external_body]
pub struct Key { _p: u8 }
#[verifier::external_body]
pub struct Error { _p: u8 }
pub type Result<T> = core::result::Result<T, Box<Error>>;

pub enum Bound<T> { Included(T), Excluded(T), Unbounded }
pub enum Range<T> {
    Exact(T),
    Bounds { start: Option<T>, end: Bound<T> },
    Multiple(Vec<Range<T>>),
    Fallback,
}
pub type RangesInner<T> = Vec<(Range<T>, ParsedValue)>;
type T = i64;

pub open spec fn contains(r: Range<T>, n: T) -> bool
    decreases r
{
    match r {
        Range::Exact(v) => v == n,
        Range::Bounds { start, end } => {
            (match start { Some(s) => s <= n, None => true })
            && (match end { Bound::Included(e) => n <= e, Bound::Excluded(e) => n < e, Bound::Unbounded => true })
        }
        Range::Multiple(rs) => exists|i: int| 0 <= i < rs.len() && contains(#[trigger] rs[i], n),
        Range::Fallback => true,
    }
}

impl Range<T> {
    #[verifier::external_body]
    fn do_match(&self, count: T) -> (r: bool)
        ensures r == contains(*self, count)
    { unimplemented!() }
}

pub uninterp spec fn populated(v: ParsedValue, args: BTreeMap<String, ParsedValue>) -> Result<ParsedValue>;

impl ParsedValue {
    #[verifier::external_body]
    pub fn populate(&self, args: &BTreeMap<String, ParsedValue>, foreign_key: &KeyPath, locale: &Key, key_path: &KeyPath) -> (r: Result<ParsedValue>)
        ensures r == populated(*self, *args)
    { unimplemented!() }
}

        fn find_value(
            v: &RangesInner<T>,
            count: T,
            args: &BTreeMap<String, ParsedValue>,
            foreign_key: &KeyPath,
            locale: &Key,
            key_path: &KeyPath,
        ) -> (res: Result<ParsedValue>)
            requires exists|i: int| 0 <= i < v.len() && contains(v[i].0, count),
            ensures exists|i: int| 0 <= i < v.len() && contains(#[trigger] v[i].0, count)
                && (forall|j: int| 0 <= j < i ==> !contains(#[trigger] v[j].0, count))
                && res == populated(v[i].1, *args),
        {
            for (range, value) in it: v
                invariant
                    forall|j: int| 0 <= j < it.index@ ==> !contains(#[trigger] v[j].0, count),
            {
                if range.do_match(count) {
                    return value.populate(args, foreign_key, locale, key_path);
                }
            }
            unreachable!("plurals validity should already have been checked.");
        }

} // verus!
fn main() {}
