#![allow(dead_code, unused)]
use super::*;

fn any_str<const N: usize>(buf: &[u8; N]) -> &str {
    let len: usize = kani::any();
    kani::assume(len <= N);
    match std::str::from_utf8(&buf[..len]) {
        Ok(s) => s,
        Err(_) => { kani::assume(false); unreachable!() }
    }
}

fn stub_format(_args: core::fmt::Arguments<'_>) -> String {
    String::from("comp_b")
}

#[kani::proof]
#[kani::unwind(6)]
fn opening_tag_4() {
    let buf: [u8; 4] = kani::any();
    let s = any_str(&buf);
    if let Some((before, ident, after, skip)) = ParsedValue::find_opening_tag(s) {
        assert!(skip <= s.len());
        assert!(before.len() + after.len() + 2 <= s.len());
        assert!(skip == s.len() - after.len());
    }
}

#[kani::proof]
#[kani::unwind(8)]
#[kani::stub(alloc::fmt::format, stub_format)]
fn closing_tag_6() {
    let buf: [u8; 6] = kani::any();
    let s = any_str(&buf);
    let r = ParsedValue::find_closing_tag(s, "b");
    if let Some((k, before, after)) = r {
        assert!(before.len() + after.len() < s.len());
        core::mem::forget(k);
    }
}
