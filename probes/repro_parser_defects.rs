use leptos_i18n_parser::parse_locales::{parsed_value::ParsedValue, ForeignKeysPaths, parse_locales};
use leptos_i18n_parser::utils::{Key, KeyPath};
fn pv(s: &str) {
    let kp = KeyPath::new(None);
    let loc = Key::new("en").unwrap();
    let f = ForeignKeysPaths::new();
    let r = std::panic::catch_unwind(|| {
        let kp = KeyPath::new(None);
        let loc = Key::new("en").unwrap();
        let f = ForeignKeysPaths::new();
        format!("{:?}", ParsedValue::new(s, &kp, &loc, &f))
    });
    println!("{:?} => {:?}", s, r);
}
fn main() {
    pv("<b>x</b>y");
    pv("<b>x</b >y");
    pv("<b>x</ b>y");
    pv("<b>x</b\u{3000}>y");
    pv("<b>x</b\u{a0}>y");
    pv("< b >x</b>y");
    pv("$t(k,");
    pv("$t(k,é)");
    pv("$t(k, {");
    pv("$t(k,é{})");
    pv("{{ a }} <b>{{ b }}</b> c <b>d</b>");
    pv("<a><b>x</a></b>");
    println!("{:?} {:?} {:?}", "a\u{200b}b", "nb\u{a0}sp", "ctl\u{7f}\u{0}\u{1b}");
    // ranges without fallback + literal count
    let dir = std::path::PathBuf::from(std::env::args().nth(1).unwrap());
    let r = std::panic::catch_unwind(|| parse_locales(false, Some(dir)).map(|_| ()).map_err(|e| e.to_string()));
    println!("parse_locales => {:?}", r);
}
