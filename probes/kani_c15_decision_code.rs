#![allow(dead_code, unused)]
use std::cell::Cell;

// ---------------- shims (assumptions) ----------------
pub trait Locale: 'static + Copy + Default + PartialEq + core::fmt::Debug {}
#[derive(Clone, Copy, PartialEq, Eq, Debug, Default)]
pub enum L { #[default] A, B, C }
impl Locale for L {}
pub struct UseLocalesOptions;
thread_local! {
    static HTML: Cell<Option<u8>> = const { Cell::new(None) };
    static ACCEPTED: Cell<u8> = const { Cell::new(0) };
}
fn l_of(i: u8) -> L { match i % 3 { 0 => L::A, 1 => L::B, _ => L::C } }
fn get_locale_from_html<Loc: From<L>>() -> Option<Loc> { HTML.get().map(|i| l_of(i).into()) }
fn get_accepted_locale<Loc: From<L>>(_o: UseLocalesOptions) -> Loc { l_of(ACCEPTED.get()).into() }

/// leptos Memo, first evaluation only: the closure is run once with `None`.
#[derive(Clone, Copy)]
pub struct Memo<T: Copy>(T);
impl<T: Copy> Memo<T> {
    pub fn new(f: impl Fn(Option<&T>) -> T) -> Self { Memo(f(None)) }
    pub fn get(&self) -> T { self.0 }
}

// ---------------- extracted verbatim from leptos_i18n/src/fetch_locale.rs ----------------
pub fn resolve_locale(current_cookie: Option<L>, options: UseLocalesOptions) -> L {
    cfg!(feature = "hydrate")
        .then(get_locale_from_html)
        .flatten()
        .or(current_cookie)
        .unwrap_or_else(move || get_accepted_locale(options))
}

pub fn signal_once_then<T: Clone + PartialEq + Send + Sync + 'static + Copy>(
    start: T,
    then: Memo<T>,
) -> Memo<T> {
    Memo::new(move |init| {
        let then = then.get();
        if init.is_none() {
            start.clone()
        } else {
            then
        }
    })
}

pub fn signal_maybe_once_then<T: Clone + PartialEq + Send + Sync + 'static + Copy>(
    start: Option<T>,
    then: Memo<T>,
) -> Memo<T> {
    match start {
        Some(start) => signal_once_then(start, then),
        None => then,
    }
}

// ---------------- E1: closure body of init_subcontext_with_options ----------------
pub fn subcontext_listener(prev_locale: Option<&L>, sig_initial_locale: Option<L>, sig_cookie: Option<L>, sig_parent_locale: L) -> L {
        let initial_locale = sig_initial_locale;
        let cookie = sig_cookie;
        let parent_locale = sig_parent_locale;
        // first execution, cookie takes precedence
        if prev_locale.is_none() {
            cookie.or(initial_locale).unwrap_or(parent_locale)
        } else {
            // triggers if initial_locale updates, so it takes precedence here
            initial_locale.or(cookie).unwrap_or(parent_locale)
        }
}

#[cfg(kani)]
mod proofs {
    use super::*;
    fn any_l() -> L { l_of(kani::any()) }
    fn any_ol() -> Option<L> { if kani::any() { Some(any_l()) } else { None } }

    #[kani::proof]
    fn resolve_locale_order() {
        let html: Option<u8> = if kani::any() { Some(kani::any::<u8>() % 3) } else { None };
        let acc: u8 = kani::any::<u8>() % 3;
        HTML.set(html); ACCEPTED.set(acc);
        let cookie = any_ol();
        let r = resolve_locale(cookie, UseLocalesOptions);
        let want = if cfg!(feature = "hydrate") && html.is_some() { l_of(html.unwrap()) }
                   else if let Some(c) = cookie { c } else { l_of(acc) };
        assert!(r == want);
    }

    #[kani::proof]
    fn once_then_first_value() {
        let start = any_ol();
        let then = any_l();
        let m = signal_maybe_once_then(start, Memo(then));
        assert!(m.get() == match start { Some(s) => s, None => then });
    }

    #[kani::proof]
    fn subcontext_order() {
        let (i, c, p) = (any_ol(), any_ol(), any_l());
        let first = subcontext_listener(None, i, c, p);
        assert!(first == c.or(i).unwrap_or(p));
        assert!(first == if let Some(c) = c { c } else if let Some(i) = i { i } else { p });
        let prev = any_l();
        let later = subcontext_listener(Some(&prev), i, c, p);
        assert!(later == if let Some(i) = i { i } else if let Some(c) = c { c } else { p });
    }
}
