use vstd::prelude::*;
use std::collections::HashMap;
verus! {

pub struct StringIndexer {
    current: HashMap<String, usize>,
    acc: Vec<String>,
}

impl StringIndexer {
    pub closed spec fn table(&self) -> Seq<Seq<char>> {
        Seq::new(self.acc@.len(), |i: int| self.acc@[i]@)
    }
    pub closed spec fn wf(&self) -> bool {
        &&& forall|i: int| 0 <= i < self.acc@.len() ==> self.current@.contains_key(#[trigger] self.acc@[i]) && self.current@[self.acc@[i]] == i
        &&& forall|k: String| self.current@.contains_key(k) ==> 0 <= #[trigger] self.current@[k] < self.acc@.len() && self.acc@[self.current@[k] as int]@ == k@
    }

    pub fn push_str(&mut self, s: &str) -> (r: usize)
        requires old(self).wf(),
        ensures
            final(self).wf(),
            r < final(self).table().len(),
            final(self).table()[r as int] == s@,
            // stable: nothing already handed out moves
            old(self).table().is_prefix_of(final(self).table()),
            // dedup: table grows only if s was absent
            final(self).table().len() == old(self).table().len() + (if old(self).table().contains(s@) { 0int } else { 1int }),
    {
        if let Some(index) = self.current.get(s) {
            *index
        } else {
            let i = self.acc.len();
            let s: String = String::from(s);
            self.acc.push(s.clone());
            self.current.insert(s, i);
            i
        }
    }
}

} // verus!
fn main() {}
