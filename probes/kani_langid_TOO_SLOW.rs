#![allow(dead_code, unused)]
use icu_locid::{langid, LanguageIdentifier};

/// shim: only the supertraits langid.rs actually uses
pub trait Locale: 'static + Default + Copy + AsRef<LanguageIdentifier> + PartialEq {}

#[path = "/repo/leptos_i18n/src/langid.rs"]
mod langid;

#[derive(Clone, Copy, PartialEq, Eq, Debug, Default)]
pub enum L { #[default] En, Fr, EnUs, FrFr }

static IDS: [LanguageIdentifier; 4] = [langid!("en"), langid!("fr"), langid!("en-US"), langid!("fr-FR")];
impl AsRef<LanguageIdentifier> for L {
    fn as_ref(&self) -> &LanguageIdentifier { &IDS[*self as usize] }
}
impl Locale for L {}

#[cfg(kani)]
mod proofs {
    use super::*;
    fn any_l() -> L { match kani::any::<u8>() % 4 { 0 => L::En, 1 => L::Fr, 2 => L::EnUs, _ => L::FrFr } }
    #[kani::proof]
    #[kani::unwind(4)]
    fn p_tovec() {
        let avail = [L::En, L::Fr];
        let v = avail.to_vec();
        assert!(v.len() == 2);
    }
    #[kani::proof]
    #[kani::unwind(4)]
    fn p_sort() {
        let mut v = vec![L::En, L::EnUs];
        v.sort_by(|x, y| (*x as u8).cmp(&(*y as u8)).reverse());
        assert!(v[0] == L::EnUs);
    }
    #[kani::proof]
    #[kani::unwind(4)]
    fn p_spec() {
        let a: &LanguageIdentifier = L::EnUs.as_ref();
        assert!(a.region.is_some());
    }
    #[kani::proof]
    #[kani::unwind(4)]
    fn p_retain() {
        let mut v = vec![L::En, L::EnUs];
        let mut out = vec![];
        v.retain(|l| { if *l == L::En { out.push(*l); false } else { true } });
        assert!(out.len() == 1 && v.len() == 1);
    }
    #[kani::proof]
    #[kani::unwind(4)]
    fn empty_req() {
        let req: [LanguageIdentifier; 0] = [];
        let avail = [L::En, L::Fr];
        let r = langid::find_match(&req, &avail);
        assert!(r == L::En);
    }
    #[kani::proof]
    #[kani::unwind(4)]
    fn one_req() {
        let req = [langid!("fr")];
        let avail = [L::En, L::Fr];
        let r = langid::find_match(&req, &avail);
        core::mem::forget(req);
        assert!(r == L::Fr);
    }
    #[kani::proof]
    #[kani::unwind(6)]
    fn pref_order() {
        // requested = [fr, en-US]; available = [en (default), fr, en-US]
        let req = [langid!("fr"), langid!("en-US")];
        let avail = [L::En, L::Fr, L::EnUs];
        let r = langid::find_match(&req, &avail);
        assert!(r == L::Fr);
    }
}
