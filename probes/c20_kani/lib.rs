// Harness crate for property C20 (std only; no icu_datagen, no parser crate).
//   src/extracted_*.rs are regenerated from /repo on every run by tools/c20_extract.py, all verbatim:
//   the data types the walk reads, InterpolationKeys::iter_vars, enum Options, find_used_datakey,
//   TranslationsInfos::get_icu_keys_inner.
// Everything in *this* file is shim or harness.  The shims are assumptions (listed in evidence):
//   * std's BTreeMap / BTreeSet / HashSet are vector-backed stand-ins offering the operations the walk uses
//     (`values`, `iter`, `&set` iteration, `insert`) with their documented meaning: each entry visited once,
//     `insert` adds the value unless present.  (The real collections do not terminate under CBMC.)
//   * Key, Locale, Namespace, DefaultedLocales and the formatter option types are opaque: the walk never looks
//     into them.
#![allow(dead_code, unused)]

// ---------------- collection stand-ins (assumptions) ----------------
#[derive(Debug)]
pub struct BTreeMap<K, V>(pub Vec<(K, V)>);
impl<K, V> Default for BTreeMap<K, V> { fn default() -> Self { BTreeMap(Vec::new()) } }
impl<K, V> BTreeMap<K, V> {
    pub fn values(&self) -> impl Iterator<Item = &V> { self.0.iter().map(|(_, v)| v) }
    pub fn iter(&self) -> impl Iterator<Item = (&K, &V)> { self.0.iter().map(|(k, v)| (k, v)) }
}
#[derive(Debug)]
pub struct BTreeSet<T>(pub Vec<T>);
impl<T> Default for BTreeSet<T> { fn default() -> Self { BTreeSet(Vec::new()) } }
impl<'a, T> IntoIterator for &'a BTreeSet<T> {
    type Item = &'a T;
    type IntoIter = std::slice::Iter<'a, T>;
    fn into_iter(self) -> Self::IntoIter { self.0.iter() }
}
/// array-backed (capacity 5 = the number of options): a vector that grows by a symbolic amount is what CBMC cannot digest
#[derive(Debug)]
pub struct HashSet<T: Copy> { items: [Option<T>; 5], len: usize }
impl<T: Copy + PartialEq> HashSet<T> {
    pub fn new() -> Self { HashSet { items: [None; 5], len: 0 } }
    pub fn len(&self) -> usize { self.len }
    /// written without a loop: the harnesses run with an unwinding bound of 4 (tree depth 3, maps of at most 2 entries)
    pub fn contains(&self, x: &T) -> bool {
        (self.len > 0 && self.items[0] == Some(*x)) || (self.len > 1 && self.items[1] == Some(*x))
            || (self.len > 2 && self.items[2] == Some(*x)) || (self.len > 3 && self.items[3] == Some(*x))
            || (self.len > 4 && self.items[4] == Some(*x))
    }
    pub fn insert(&mut self, x: T) -> bool {
        if self.contains(&x) { return false; }
        assert!(self.len < 5, "HashSet model: capacity");
        self.items[self.len] = Some(x);
        self.len += 1;
        true
    }
}

// ---------------- opaque stand-ins (assumptions) ----------------
#[derive(Debug, Clone, Copy, Hash, PartialEq, Eq, PartialOrd, Ord)] pub struct Key(pub u8);
impl Key { pub fn clone_key(&self) -> Key { *self } }
#[derive(Debug)] pub struct Locale;
#[derive(Debug)] pub struct Namespace;
#[derive(Debug)] pub struct DefaultedLocales;
macro_rules! opaque { ($($n:ident),*) => { $( #[derive(Debug, Default, Clone, Copy, Hash, PartialEq, Eq, PartialOrd, Ord)] pub struct $n(pub u8); )* } }
opaque!(GroupingStrategy, DateLength, TimeLength, ListType, ListStyle, CurrencyWidth, CurrencyCode);

include!("extracted_types.rs");
include!("extracted_parser.rs");

pub mod datakey {
    use super::*;
    include!("extracted_datakey.rs");
}
use datakey::Options;

/// the field of TranslationsInfos that get_icu_keys_inner reads
pub struct TranslationsInfos { pub locales: BuildersKeys }
include!("extracted_build.rs");
impl TranslationsInfos {
    /// `get_icu_keys_inner` is private: a plain forwarder so that a harness can call it
    pub fn call_get_icu_keys_inner(&self, used: &mut HashSet<Options>) { self.get_icu_keys_inner(used) }
}

// ---------------- the property, written from its text ----------------
pub const ALL: [Options; 5] = [Options::Plurals, Options::FormatDateTime, Options::FormatList, Options::FormatNums, Options::FormatCurrency];
/// which data a formatter needs (documentation of `Options`): none for `None`
pub fn family(f: &Formatter) -> Option<Options> {
    match f {
        Formatter::None => None,
        Formatter::Number(_) => Some(Options::FormatNums),
        Formatter::Date(_) | Formatter::Time(_) | Formatter::DateTime(_, _) => Some(Options::FormatDateTime),
        Formatter::List(_, _) => Some(Options::FormatList),
        Formatter::Currency(_, _) => Some(Options::FormatCurrency),
    }
}
#[cfg(kani)]
mod proofs {
    use super::*;

    /// what a generated piece uses, recorded while it is generated (index = position in ALL): the oracle never
    /// walks the tree (CBMC unwinds a recursive walk over heap data to the bound at every level)
    type Uses = [bool; 5];
    fn or(a: Uses, b: Uses) -> Uses { [a[0] || b[0], a[1] || b[1], a[2] || b[2], a[3] || b[3], a[4] || b[4]] }
    fn idx(o: Options) -> usize { match o { Options::Plurals => 0, Options::FormatDateTime => 1, Options::FormatList => 2, Options::FormatNums => 3, Options::FormatCurrency => 4 } }

    fn any_formatter(u: &mut Uses) -> Formatter {
        let c: u8 = kani::any();
        kani::assume(c < 7);
        let f = match c {
            0 => Formatter::None,
            1 => Formatter::Number(GroupingStrategy(0)),
            2 => Formatter::Date(DateLength(0)),
            3 => Formatter::Time(TimeLength(0)),
            4 => Formatter::DateTime(DateLength(0), TimeLength(0)),
            5 => Formatter::List(ListType(0), ListStyle(0)),
            _ => Formatter::Currency(CurrencyWidth(0), CurrencyCode(0)),
        };
        // C20: each formatter family's data iff that formatter is used
        if let Some(o) = family(&f) { u[idx(o)] = true; }
        f
    }
    fn any_var(nf: usize, u: &mut Uses) -> VarInfo {
        let mut fs = Vec::new();
        let mut i = 0;
        while i < nf { fs.push(any_formatter(u)); i += 1; }
        let c: u8 = kani::any();
        kani::assume(c < 3);
        let rc = match c { 0 => None, 1 => Some(RangeOrPlural::Range(RangeType::I32)), _ => Some(RangeOrPlural::Plural) };
        // C20: plural data iff some key is a plural
        if c == 2 { u[0] = true; }
        VarInfo { formatters: BTreeSet(fs), range_count: rc }
    }
    /// a value: a literal, or an interpolation with `nv` variables of `nf` formatters each
    fn any_value(nv: usize, nf: usize, u: &mut Uses) -> LocaleValue {
        let value = if kani::any() {
            InterpolOrLit::Lit(LiteralType::String)
        } else {
            let mut vars = Vec::new();
            let mut i = 0;
            while i < nv { vars.push((Key(i as u8), any_var(nf, u))); i += 1; }
            InterpolOrLit::Interpol(InterpolationKeys { components: BTreeSet(Vec::new()), variables: BTreeMap(vars) })
        };
        LocaleValue::Value { value, defaults: DefaultedLocales }
    }
    /// `{ k0: value, k1: { k2: value, k3: { k4: value } } }`: values at depth 0, 1 and 2
    fn any_tree(nv: usize, nf: usize, u: &mut Uses) -> BuildersKeysInner {
        let deep = BuildersKeysInner(BTreeMap(vec![(Key(4), any_value(nv, nf, u))]));
        let mid = BuildersKeysInner(BTreeMap(vec![(Key(2), any_value(nv, nf, u)), (Key(3), LocaleValue::Subkeys { locales: Vec::new(), keys: deep })]));
        BuildersKeysInner(BTreeMap(vec![(Key(0), any_value(nv, nf, u)), (Key(1), LocaleValue::Subkeys { locales: Vec::new(), keys: mid })]))
    }
    fn check_exact(want: Uses, used: &HashSet<Options>) {
        // C20: an option is requested if and only if some key uses it (no loop: see HashSet::contains)
        assert!(used.contains(&ALL[0]) == want[0]);
        assert!(used.contains(&ALL[1]) == want[1]);
        assert!(used.contains(&ALL[2]) == want[2]);
        assert!(used.contains(&ALL[3]) == want[3]);
        assert!(used.contains(&ALL[4]) == want[4]);
        // and each at most once
        assert!(used.len() <= ALL.len());
    }

    #[kani::proof]
    #[kani::unwind(4)]
    fn precondition_satisfiable() {
        let mut u = [false; 5];
        let keys = any_tree(1, 1, &mut u);
        kani::cover!(u[0] && u[4] && !u[2]);
        std::mem::forget(keys);
    }
    /// values with one variable of two formatters, at three depths
    #[kani::proof]
    #[kani::unwind(4)]
    fn walk_1_2() {
        let mut u = [false; 5];
        let keys = any_tree(1, 2, &mut u);
        let mut used = HashSet::new();
        datakey::find_used_datakey(&keys, &mut used);
        check_exact(u, &used);
        std::mem::forget(keys);
    }
    /// values with two variables of one formatter, at three depths
    #[kani::proof]
    #[kani::unwind(4)]
    fn walk_2_1() {
        let mut u = [false; 5];
        let keys = any_tree(2, 1, &mut u);
        let mut used = HashSet::new();
        datakey::find_used_datakey(&keys, &mut used);
        check_exact(u, &used);
        std::mem::forget(keys);
    }
    /// what was already requested stays requested, nothing else is added
    #[kani::proof]
    #[kani::unwind(4)]
    fn accumulates() {
        let mut u = [false; 5];
        let keys = any_tree(1, 1, &mut u);
        let mut used = HashSet::new();
        let pre: u8 = kani::any();
        kani::assume(pre < 5);
        used.insert(ALL[pre as usize]);
        u[pre as usize] = true;
        datakey::find_used_datakey(&keys, &mut used);
        check_exact(u, &used);
        std::mem::forget(keys);
    }
    /// namespaces: the union over every namespace
    #[kani::proof]
    #[kani::unwind(4)]
    fn namespaces_union() {
        let mut u = [false; 5];
        let a = BuildersKeysInner(BTreeMap(vec![(Key(0), any_value(1, 1, &mut u))]));
        let b = BuildersKeysInner(BTreeMap(vec![(Key(0), any_value(1, 1, &mut u)), (Key(1), LocaleValue::Subkeys { locales: Vec::new(), keys: BuildersKeysInner(BTreeMap(vec![(Key(2), any_value(1, 1, &mut u))])) })]));
        let infos = TranslationsInfos { locales: BuildersKeys::NameSpaces { namespaces: Vec::new(), keys: BTreeMap(vec![(Key(10), a), (Key(11), b)]) } };
        let mut used = HashSet::new();
        infos.call_get_icu_keys_inner(&mut used);
        check_exact(u, &used);
        std::mem::forget(infos);
    }
    /// no namespaces: the one key tree
    #[kani::proof]
    #[kani::unwind(4)]
    fn no_namespaces() {
        let mut u = [false; 5];
        let keys = any_tree(1, 1, &mut u);
        let infos = TranslationsInfos { locales: BuildersKeys::Locales { locales: Vec::new(), keys } };
        let mut used = HashSet::new();
        infos.call_get_icu_keys_inner(&mut used);
        check_exact(u, &used);
        std::mem::forget(infos);
    }
}
