#![allow(dead_code, unused)]
use icu_locid::{langid, LanguageIdentifier};
pub trait Locale: 'static + Default + Copy + AsRef<LanguageIdentifier> + PartialEq {}
#[path = "/repo/leptos_i18n/src/langid.rs"]
mod langid;
#[derive(Clone, Copy, PartialEq, Eq, Debug, Default)]
pub enum L { #[default] En, Fr, EnUs, FrFr }
static IDS: [LanguageIdentifier; 4] = [langid!("en"), langid!("fr"), langid!("en-US"), langid!("fr-FR")];
impl AsRef<LanguageIdentifier> for L { fn as_ref(&self) -> &LanguageIdentifier { &IDS[*self as usize] } }
impl Locale for L {}
fn main() {
    let req = [langid!("fr"), langid!("en-US")];
    let avail = [L::En, L::Fr, L::EnUs];
    println!("{:?} -> {:?} / {:?}", req, langid::filter_matches(&req, &avail), langid::find_match(&req, &avail));
    let req = [langid!("fr-CA"), langid!("en-US")];
    println!("{:?} -> {:?} / {:?}", req, langid::filter_matches(&req, &avail), langid::find_match(&req, &avail));
}
