use vstd::prelude::*;
use vstd::std_specs::hash::*;
use std::collections::HashMap;
verus! {

// ---- assumed facts about std (listed in trusted_base) ----
pub assume_specification<'a, 'b>[ <String as From<&'a str>>::from ](s: &'b str) -> (r: String)
    ensures r@ == s@;

pub broadcast axiom fn axiom_string_view_injective(a: String, b: String)
    ensures #[trigger] a@ == #[trigger] b@ ==> a == b;

pub broadcast axiom fn axiom_string_str_borrow<V>(m: Map<String, V>, k: &str)
    ensures #[trigger] contains_borrowed_key::<String, V, str>(m, k) <==> exists|key: String| key@ == k@ && m.contains_key(key);

pub broadcast axiom fn axiom_string_str_borrow_value<V>(m: Map<String, V>, k: &str, v: V)
    ensures #[trigger] maps_borrowed_key_to_value::<String, V, str>(m, k, v) <==> exists|key: String| key@ == k@ && m.contains_key(key) && m[key] == v;

pub struct StringIndexer {
    current: HashMap<String, usize>,
    acc: Vec<String>,
}

impl StringIndexer {
    pub closed spec fn table(&self) -> Seq<Seq<char>> {
        Seq::new(self.acc@.len(), |i: int| self.acc@[i]@)
    }
    pub closed spec fn wf(&self) -> bool {
        &&& obeys_key_model::<String>()
        &&& forall|i: int| 0 <= i < self.acc@.len() ==> self.current@.contains_key(#[trigger] self.acc@[i]) && self.current@[self.acc@[i]] == i
        &&& forall|k: String| self.current@.contains_key(k) ==> 0 <= #[trigger] self.current@[k] < self.acc@.len() && self.acc@[self.current@[k] as int] == k
    }

    pub fn push_str(&mut self, s: &str) -> (r: usize)
        requires old(self).wf(),
        ensures
            final(self).wf(),
            r < final(self).table().len(),
            final(self).table()[r as int] == s@,
            old(self).table().is_prefix_of(final(self).table()),
            final(self).table().len() == old(self).table().len() + (if old(self).table().contains(s@) { 0int } else { 1int }),
    {
        broadcast use axiom_string_view_injective, axiom_string_str_borrow, axiom_string_str_borrow_value;
        if let Some(index) = self.current.get(s) {
            proof {
                let key = choose|key: String| key@ == s@ && self.current@.contains_key(key) && self.current@[key] == *index;
                assert(self.acc@[*index as int] == key);
                assert(self.table()[*index as int] == s@);
                assert(self.table().contains(s@));
            }
            *index
        } else {
            let i = self.acc.len();
            let ghost old_table = self.table();
            proof {
                assert(!old_table.contains(s@)) by {
                    if old_table.contains(s@) {
                        let j = choose|j: int| 0 <= j < old_table.len() && old_table[j] == s@;
                        assert(self.current@.contains_key(self.acc@[j]));
                        assert(self.acc@[j]@ == s@);
                    }
                }
            }
            let s: String = String::from(s);
            self.acc.push(s.clone());
            self.current.insert(s, i);
            proof {
                assert(self.acc@[i as int]@ == s@);
                assert(self.acc@[i as int] == s);
                assert(old_table.is_prefix_of(self.table()));
            }
            i
        }
    }
}

} // verus!
fn main() {}
