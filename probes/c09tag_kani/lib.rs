// Harness crate for property C09 (one more panic site): the search for the closing tag of a component
// `<b>..</b>`.   src/extracted.rs is regenerated from /repo on every run by tools/c09tag_extract.py:
// ParsedValue::find_closing_tag and find_opening_tag, verbatim.
// Everything in *this* file is shim or harness.  Shims (assumptions): `Key::new` accepts every name (the real one
// rejects names that are not identifiers: fewer paths reach the offsets), `format!` yields an empty String (its
// result only feeds `Key::new`).
#![allow(dead_code, unused)]

#[derive(Clone, Debug)] pub struct Key(pub u8);
impl Key { pub fn new(_name: &str) -> Option<Key> { Some(Key(0)) } }
pub struct ParsedValue;
macro_rules! format { ($($t:tt)*) => { String::new() }; }

include!("extracted.rs");

#[cfg(kani)]
mod proofs {
    use super::*;

    /// every valid UTF-8 text of exactly N bytes over the bytes of `< > / b space` and of U+00A0 (no-break space:
    /// two bytes, trimmed by `str::trim` like a space)
    fn any_text<const N: usize>() -> [u8; N] {
        let bytes: [u8; N] = kani::any();
        let mut i = 0;
        while i < N {
            let b = bytes[i];
            kani::assume(b == b'<' || b == b'>' || b == b'/' || b == b'b' || b == b' ' || b == 0xC2 || b == 0xA0);
            i += 1;
        }
        bytes
    }

    /// C09: no panic (no slice out of range or inside a character); and when a closing tag is found, `before` is a
    /// prefix that ends right before a `<`, `after` is a suffix that starts right after a `>`
    fn closing<const N: usize>() {
        let bytes = any_text::<N>();
        let Ok(s) = std::str::from_utf8(&bytes) else { return; };
        if let Some((_key, before, after)) = ParsedValue::find_closing_tag(s, "b") {
            assert!(before.len() + after.len() <= s.len());
            assert!(bytes[before.len()] == b'<');
            assert!(bytes[s.len() - after.len() - 1] == b'>');
        }
    }
    fn satisfiable<const N: usize>() {
        let bytes = any_text::<N>();
        kani::cover!(std::str::from_utf8(&bytes).is_ok());
    }

    macro_rules! lens { ($($m:ident: $n:expr, $u:expr;)*) => { $(
        mod $m {
            use super::*;
            #[kani::proof] #[kani::unwind($u)] fn precondition_satisfiable() { satisfiable::<$n>() }
            #[kani::proof] #[kani::unwind($u)] fn closing() { super::closing::<$n>() }
        }
    )* } }
    lens! { len_4: 4, 8; len_5: 5, 9; len_6: 6, 10; len_7: 7, 11; }
}
