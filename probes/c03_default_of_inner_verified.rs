use vstd::prelude::*;
use vstd::std_specs::hash::obeys_key_model;
use std::collections::{BTreeMap, BTreeSet, HashSet};

verus! {

#[derive(PartialEq, Eq, PartialOrd, Ord, Hash)]
pub struct Key { pub id: u64 }

pub struct DefaultedLocales {
    pub default_locale: Key,
    pub mapping: BTreeMap<Key, Key>,
}

pub open spec fn walk(m: Map<Key, Key>, k: Key, n: nat) -> Key
    decreases n
{
    if n == 0 { k } else {
        let p = walk(m, k, (n - 1) as nat);
        if m.contains_key(p) { m[p] } else { p }
    }
}

pub open spec fn exits_at(m: Map<Key, Key>, k: Key, n: nat) -> bool {
    &&& !m.contains_key(walk(m, k, n))
    &&& forall|i: nat| i < n ==> m.contains_key(#[trigger] walk(m, k, i))
}

pub open spec fn hits(m: Map<Key, Key>, k: Key, n: nat, x: Key, i: nat) -> bool {
    i <= n && x == walk(m, k, i)
}

pub open spec fn resolves_to(m: Map<Key, Key>, d: Key, k: Key, r: Key) -> bool {
    &&& (forall|n: nat| exits_at(m, k, n) ==> r == walk(m, k, n))
    &&& ((forall|n: nat| !exits_at(m, k, n)) ==> r == d)
}

// all steps up to n stay inside dom(m), and step n+1 lands on an earlier element: never exits
proof fn lemma_cycle(m: Map<Key, Key>, k: Key, n: nat, j: nat, t: nat)
    requires
        j <= n,
        forall|i: nat| i <= n ==> m.contains_key(#[trigger] walk(m, k, i)),
        walk(m, k, n + 1) == walk(m, k, j),
    ensures
        m.contains_key(walk(m, k, t)),
        exists|i: nat| hits(m, k, n, walk(m, k, t), i),
    decreases t
{
    if t == 0 {
        assert(hits(m, k, n, walk(m, k, 0), 0));
    } else {
        lemma_cycle(m, k, n, j, (t - 1) as nat);
        let p = walk(m, k, (t - 1) as nat);
        let i = choose|i: nat| hits(m, k, n, p, i);
        // walk(t) = m[walk(t-1)] = m[walk(i)] = walk(i+1)
        assert(walk(m, k, t) == walk(m, k, i + 1));
        if i < n {
            assert(hits(m, k, n, walk(m, k, t), i + 1));
        } else {
            assert(walk(m, k, i + 1) == walk(m, k, j));
            assert(hits(m, k, n, walk(m, k, t), j));
        }
    }
}

pub broadcast axiom fn axiom_ref_borrow(s: Set<&Key>, k: &Key)
    ensures #[trigger] vstd::std_specs::hash::set_contains_borrowed_key::<&Key, Key>(s, k) == s.contains(k);

impl DefaultedLocales {
    #[verifier::loop_isolation(false)]
    fn default_of_inner<'a>(&'a self, key: &'a Key, visited: &mut HashSet<&'a Key>) -> (r: &'a Key)
        requires
            old(visited)@.len() == 0,
            vstd::laws_cmp::obeys_cmp_spec::<Key>(),
            obeys_key_model::<&'a Key>(),
        ensures
            resolves_to(self.mapping@, self.default_locale, *key, *r),
    {
        broadcast use axiom_ref_borrow;
        let mut current_key = key;
        let ghost mut n: nat = 0;
        let ghost k0 = *key;
        let ghost m = self.mapping@;
        let ghost mut seen: Set<Key> = Set::empty();
        while let Some(key) = self.mapping.get(current_key)
            invariant
                m == self.mapping@,
                vstd::laws_cmp::obeys_cmp_spec::<Key>(),
                obeys_key_model::<&'a Key>(),
                *current_key == walk(m, k0, n),
                forall|i: nat| i < n ==> m.contains_key(#[trigger] walk(m, k0, i)),
                forall|i: nat| i < n ==> visited@.contains(&#[trigger] walk(m, k0, i)),
                forall|x: &Key| visited@.contains(x) ==> exists|i: nat| i < n && *x == #[trigger] walk(m, k0, i),
                visited@.len() == n,
                !visited@.contains(current_key),
                seen.subset_of(m.dom()),
                seen.len() == n,
                forall|x: Key| seen.contains(x) <==> visited@.contains(&x),
            decreases m.dom().len() - n,
        {
            let ghost old_v = visited@;
            visited.insert(current_key);
            if visited.contains(key) {
                proof {
                    // walk(n+1) == *key is already visited: some j <= n with walk(j) == *key
                    assert(walk(m, k0, n + 1) == *key);
                    assert(visited@ == old_v.insert(current_key));
                    assert(vstd::std_specs::hash::set_contains_borrowed_key::<&Key, Key>(visited@, key));
                    axiom_ref_borrow(visited@, key);
                    assert(visited@.contains(key));
                    let j = if *key == *current_key { n } else { assert(old_v.contains(key)); choose|i: nat| i < n && *key == walk(m, k0, i) };
                    assert(m.contains_key(walk(m, k0, n)));
                    assert forall|i: nat| i <= n implies m.contains_key(#[trigger] walk(m, k0, i)) by {
                        if i < n { } else { assert(i == n); }
                    }
                    assert(walk(m, k0, n + 1) == walk(m, k0, j));
                    assert forall|t: nat| !exits_at(m, k0, t) by {
                        lemma_cycle(m, k0, n, j, t);
                    }
                }
                proof {
                    assert(forall|t: nat| !exits_at(m, k0, t));
                    assert(resolves_to(m, self.default_locale, k0, self.default_locale));
                }
                return &self.default_locale;
            }
            proof {
                assert(!seen.contains(*current_key));
                seen = seen.insert(*current_key);
                vstd::set_lib::lemma_len_subset(seen, m.dom());
                axiom_ref_borrow(visited@, key);
                assert(!visited@.contains(key));
                n = n + 1;
            }
            current_key = key;
        }
        proof {
            assert(exits_at(m, k0, n));
            assert forall|t: nat| exits_at(m, k0, t) implies *current_key == walk(m, k0, t) by {
                if t < n { assert(m.contains_key(walk(m, k0, t))); }
                if n < t { assert(m.contains_key(walk(m, k0, n))); }
            }
        }
        current_key
    }
}

} // verus!
fn main() {}
