use vstd::prelude::*;
verus! {

pub open spec fn hex_digit(v: int) -> char {
    if v == 0 { '0' } else if v == 1 { '1' } else if v == 2 { '2' } else if v == 3 { '3' } else if v == 4 { '4' }
    else if v == 5 { '5' } else if v == 6 { '6' } else if v == 7 { '7' } else if v == 8 { '8' } else if v == 9 { '9' }
    else if v == 10 { 'a' } else if v == 11 { 'b' } else if v == 12 { 'c' } else if v == 13 { 'd' } else if v == 14 { 'e' } else { 'f' }
}

pub open spec fn hex_val(c: char) -> Option<int> {
    if '0' <= c && c <= '9' { Some(c as int - '0' as int) }
    else if 'a' <= c && c <= 'f' { Some(c as int - 'a' as int + 10) }
    else if 'A' <= c && c <= 'F' { Some(c as int - 'A' as int + 10) }
    else { None }
}

/// what the writer emits for one character (RFC 8259 §7: '"', '\\' and U+0000..U+001F must be escaped)
pub open spec fn jesc_char(c: char) -> Seq<char> {
    if c == '"' { seq!['\\', '"'] }
    else if c == '\\' { seq!['\\', '\\'] }
    else if (c as int) < 0x20 { seq!['\\', 'u', '0', '0', hex_digit((c as int) / 16), hex_digit((c as int) % 16)] }
    else { seq![c] }
}

pub open spec fn jesc(s: Seq<char>) -> Seq<char>
    decreases s.len()
{
    if s.len() == 0 { Seq::empty() } else { jesc_char(s[0]) + jesc(s.skip(1)) }
}

/// a JSON string-body decoder (what any conforming parser computes); None = not a valid body
pub open spec fn junesc(s: Seq<char>) -> Option<Seq<char>>
    decreases s.len()
{
    if s.len() == 0 { Some(Seq::empty()) }
    else if s[0] == '"' || (s[0] as int) < 0x20 { None }
    else if s[0] != '\\' {
        match junesc(s.skip(1)) { Some(r) => Some(seq![s[0]] + r), None => None }
    } else if s.len() < 2 { None }
    else if s[1] == '"' || s[1] == '\\' || s[1] == '/' {
        match junesc(s.skip(2)) { Some(r) => Some(seq![s[1]] + r), None => None }
    } else if s[1] == 'n' { match junesc(s.skip(2)) { Some(r) => Some(seq!['\n'] + r), None => None } }
    else if s[1] == 'r' { match junesc(s.skip(2)) { Some(r) => Some(seq!['\r'] + r), None => None } }
    else if s[1] == 't' { match junesc(s.skip(2)) { Some(r) => Some(seq!['\t'] + r), None => None } }
    else if s[1] == 'b' { match junesc(s.skip(2)) { Some(r) => Some(seq!['\u{8}'] + r), None => None } }
    else if s[1] == 'f' { match junesc(s.skip(2)) { Some(r) => Some(seq!['\u{c}'] + r), None => None } }
    else if s[1] == 'u' {
        if s.len() < 6 { None } else {
            match (hex_val(s[2]), hex_val(s[3]), hex_val(s[4]), hex_val(s[5])) {
                (Some(a), Some(b), Some(c), Some(d)) => {
                    let v = a * 4096 + b * 256 + c * 16 + d;
                    // surrogates need a pair; the writer never emits them, so the spec rejects them
                    if 0xD800 <= v && v <= 0xDFFF { None } else {
                        match junesc(s.skip(6)) { Some(r) => Some(seq![v as char] + r), None => None }
                    }
                }
                _ => None,
            }
        }
    } else { None }
}

proof fn lemma_hex(v: int)
    requires 0 <= v < 16
    ensures hex_val(hex_digit(v)) == Some(v)
{
}

proof fn lemma_roundtrip(s: Seq<char>)
    ensures junesc(jesc(s)) == Some(s)
    decreases s.len()
{
    if s.len() == 0 {
    } else {
        let c = s[0];
        let rest = s.skip(1);
        lemma_roundtrip(rest);
        let e = jesc(s);
        assert(e == jesc_char(c) + jesc(rest));
        if c == '"' || c == '\\' {
            assert(e.skip(2) =~= jesc(rest));
            assert(seq![c] + rest =~= s);
        } else if (c as int) < 0x20 {
            lemma_hex((c as int) / 16);
            lemma_hex((c as int) % 16);
            assert(e.skip(6) =~= jesc(rest));
            assert(e[2] == '0' && e[3] == '0');
            let v = 0 * 4096 + 0 * 256 + ((c as int) / 16) * 16 + (c as int) % 16;
            assert(v == c as int);
            assert(v as char == c);
            assert(seq![c] + rest =~= s);
        } else {
            assert(e.skip(1) =~= jesc(rest));
            assert(seq![c] + rest =~= s);
        }
    }
}

/// safety of the emitted text: no raw quote, no raw control char
proof fn lemma_no_raw(s: Seq<char>, i: int)
    requires 0 <= i < jesc(s).len()
    ensures (jesc(s)[i] as int) >= 0x20,
            jesc(s)[i] == '"' ==> i > 0 && jesc(s)[i - 1] == '\\',
    decreases s.len()
{
    if s.len() == 0 {
    } else {
        let c = s[0];
        let head = jesc_char(c);
        let tail = jesc(s.skip(1));
        assert(jesc(s) == head + tail);
        if i < head.len() {
            if (c as int) < 0x20 && c != '"' && c != '\\' {
                assert(0 <= (c as int) / 16 < 16);
                assert(0 <= (c as int) % 16 < 16);
            }
        } else {
            lemma_no_raw(s.skip(1), i - head.len());
            if tail[i - head.len()] == '"' {
                assert(i - head.len() > 0);
            }
        }
    }
}

} // verus!
fn main() {}
