use vstd::prelude::*;
use std::collections::{BTreeMap, BTreeSet};
verus! {

#[derive(PartialEq, Eq, PartialOrd, Ord)]
pub struct Key { pub id: u64 }
#[derive(Default)]
pub struct KeyPath { pub namespace: Option<Key>, pub path: Vec<Key> }
#[derive(Clone, Copy, PartialEq, Eq, Structural)]
pub enum RangeType { I8, I16, I32, I64, U8, U16, U32, U64, F32, F64 }
#[derive(Clone, Copy, PartialEq, Eq)]
pub enum RangeOrPlural { Range(RangeType), Plural }
pub enum Error {
    RangeAndPluralsMix { key_path: KeyPath },
    RangeTypeMissmatch { key_path: KeyPath, type1: RangeType, type2: RangeType },
}
pub type Result<T> = core::result::Result<T, Box<Error>>;
#[derive(PartialEq, Eq, PartialOrd, Ord, Clone, Copy)]
pub struct Formatter { pub id: u8 }
#[derive(Default)]
pub struct VarInfo {
    pub formatters: BTreeSet<Formatter>,
    pub range_count: Option<RangeOrPlural>,
}
pub struct InterpolationKeys {
    components: BTreeSet<Key>,
    variables: BTreeMap<Key, VarInfo>,
}

pub assume_specification<T>[ Option::<T>::replace ](o: &mut Option<T>, v: T) -> (r: Option<T>)
    ensures r == *old(o), *final(o) == Some(v);
pub assume_specification<T: Default>[ std::mem::take::<T> ](d: &mut T) -> (r: T)
    ensures r == *old(d);

impl InterpolationKeys {
    pub fn push_count(
        var_infos: &mut VarInfo,
        key_path: &mut KeyPath,
        ty: RangeOrPlural,
    ) -> (r: Result<()>)
        ensures
            final(var_infos).range_count == Some(ty),
            r.is_ok() <==> (old(var_infos).range_count is None || old(var_infos).range_count == Some(ty)),
    {
        match (var_infos.range_count.replace(ty), ty) {
            (None, _) | (Some(RangeOrPlural::Plural), RangeOrPlural::Plural) => Ok(()),
            (Some(RangeOrPlural::Range(old)), RangeOrPlural::Range(new)) if old == new => Ok(()),
            (Some(RangeOrPlural::Plural), RangeOrPlural::Range(_))
            | (Some(RangeOrPlural::Range(_)), RangeOrPlural::Plural) => {
                Err(Error::RangeAndPluralsMix {
                    key_path: std::mem::take(key_path),
                }
                .into())
            }
            (Some(RangeOrPlural::Range(old)), RangeOrPlural::Range(new)) => {
                Err(Error::RangeTypeMissmatch {
                    key_path: std::mem::take(key_path),
                    type1: old,
                    type2: new,
                }
                .into())
            }
        }
    }
}

} // verus!
fn main() {}
