#![allow(dead_code, unused)]
use super::*;

const NAMES: [&str; 3] = ["date_length", "time_length", "bogus"];
const VALS: [&str; 5] = ["full", "long", "medium", "short", "bogus"];

#[kani::proof]
#[kani::unwind(14)]
fn date_len_two_args() {
    let n0: usize = kani::any(); let v0: usize = kani::any(); let n1: usize = kani::any(); let v1: usize = kani::any();
    kani::assume(n0 < 3 && n1 < 3 && v0 < 5 && v1 < 5);
    let args = [(NAMES[n0], VALS[v0]), (NAMES[n1], VALS[v1])];
    let got = DateLength::from_args(Some(&args[..]));
    let val = |v: usize| match v { 0 => Some(DateLength::Full), 1 => Some(DateLength::Long), 2 => Some(DateLength::Medium), 3 => Some(DateLength::Short), _ => None };
    let want = if n0 == 0 && val(v0).is_some() { val(v0).unwrap() } else if n1 == 0 && val(v1).is_some() { val(v1).unwrap() } else { DateLength::Medium };
    assert!(got == want);
}
