#![allow(dead_code, unused)]
use super::*;

const NAMES: [&str; 3] = ["date_length", "time_length", "bogus"];
const VALS: [&str; 5] = ["full", "long", "medium", "short", "bogus"];

#[kani::proof]
#[kani::unwind(14)]
fn date_len_two_args() {
    let n0: usize = kani::any(); let v0: usize = kani::any(); let n1: usize = kani::any(); let v1: usize = kani::any();
    kani::assume(n0 < 3 && n1 < 3 && v0 < 5 && v1 < 5);
    let args = [(NAMES[n0], VALS[v0]), (NAMES[n1], VALS[v1])];
    let got = DateLength::from_args(Some(&args[..]));
    let val = |v: usize| match v { 0 => Some(DateLength::Full), 1 => Some(DateLength::Long), 2 => Some(DateLength::Medium), 3 => Some(DateLength::Short), _ => None };
    let want = if n0 == 0 && val(v0).is_some() { val(v0).unwrap() } else if n1 == 0 && val(v1).is_some() { val(v1).unwrap() } else { DateLength::Medium };
    assert!(got == want);
}

const FNAMES: [&str; 7] = ["currency", "number", "datetime", "date", "time", "list", "bogus"];

#[kani::proof]
#[kani::unwind(14)]
fn name_dispatch() {
    let skip: bool = kani::any();
    let _g = SkipIcuCfgGuard::new(skip);
    let i: usize = kani::any();
    kani::assume(i < 7);
    let v0: usize = kani::any();
    kani::assume(v0 < 5);
    let args = [("date_length", VALS[v0])];
    let r = Formatter::from_name_and_args(FNAMES[i], Some(&args[..]));
    let dl = match v0 { 0 => DateLength::Full, 1 => DateLength::Long, 2 => DateLength::Medium, 3 => DateLength::Short, _ => DateLength::Medium };
    let want_variant = match i {
        0 => Some(Formatter::Currency(CurrencyWidth::Short, CurrencyCode::default())),
        1 => Some(Formatter::Number(GroupingStrategy::Auto)),
        2 => Some(Formatter::DateTime(dl, TimeLength::Short)),
        3 => Some(Formatter::Date(dl)),
        4 => Some(Formatter::Time(TimeLength::Short)),
        5 => Some(Formatter::List(ListType::Unit, ListStyle::Wide)),
        _ => None,
    };
    // no format_* feature is on in this build: Ok only when skip is set
    match (want_variant, r) {
        (None, Ok(None)) => {}
        (Some(w), Ok(Some(g))) => { assert!(skip && w == g); }
        (Some(w), Err(g)) => { assert!(!skip && w == g); }
        _ => { assert!(false); }
    }
}

#[kani::proof]
#[kani::unwind(14)]
fn date_len_three_args() {
    let n: [usize; 3] = kani::any(); let v: [usize; 3] = kani::any();
    kani::assume(n[0] < 3 && n[1] < 3 && n[2] < 3 && v[0] < 5 && v[1] < 5 && v[2] < 5);
    let len: usize = kani::any(); kani::assume(len <= 3);
    let args = [(NAMES[n[0]], VALS[v[0]]), (NAMES[n[1]], VALS[v[1]]), (NAMES[n[2]], VALS[v[2]])];
    let got = DateLength::from_args(Some(&args[..len]));
    let val = |x: usize| match x { 0 => Some(DateLength::Full), 1 => Some(DateLength::Long), 2 => Some(DateLength::Medium), 3 => Some(DateLength::Short), _ => None };
    let mut want = DateLength::Medium; let mut found = false;
    let mut k = 0; while k < len { if !found && n[k] == 0 { if let Some(x) = val(v[k]) { want = x; found = true; } } k += 1; }
    assert!(got == want);
}
