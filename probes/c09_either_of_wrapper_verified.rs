use vstd::prelude::*;
verus! {

// shims: token types are opaque; the macro calls quote!/format_ident! are replaced by tok*/ident* (extraction rule M1)
#[verifier::external_body] pub struct TokenStream { _p: u8 }
#[verifier::external_body] pub struct Ident { _p: u8 }
#[verifier::external_body] fn tok0() -> TokenStream { unimplemented!() }
#[verifier::external_body] fn tok1(a: TokenStream) -> TokenStream { unimplemented!() }
#[verifier::external_body] fn ident_letter(c: char) -> Ident { unimplemented!() }
#[verifier::external_body] fn ident_either(size: usize) -> Ident { unimplemented!() }

pub enum EitherOfWrapper {
    Single,
    Duo,
    Multiple(Ident),
    Nested(Box<Self>),
}

pub open spec fn size_of(w: EitherOfWrapper) -> nat
    decreases w
{
    match w {
        EitherOfWrapper::Single => 1,
        EitherOfWrapper::Duo => 2,
        EitherOfWrapper::Multiple(_) => 16,   // upper bound on arity
        EitherOfWrapper::Nested(b) => 15 + size_of(*b),
    }
}

impl EitherOfWrapper {
    pub fn new(size: usize) -> (r: EitherOfWrapper)
        requires size >= 1,
        ensures size <= size_of(r),
        decreases size,
    {
        match size {
            0 => {
                unreachable!("0 locales ? how is this possible ? should have been checked by now.")
            }
            1 => EitherOfWrapper::Single,
            2 => EitherOfWrapper::Duo,
            3..=16 => EitherOfWrapper::Multiple(ident_either(size)),
            17.. => EitherOfWrapper::Nested(Box::new(Self::new(size - 15))),
        }
    }

    pub fn wrap(&self, i: usize, ts: TokenStream) -> TokenStream
        requires i < size_of(*self),
        decreases *self,
    {
        const LETTERS: [char; 16] = [
            'A', 'B', 'C', 'D', 'E', 'F', 'G', 'H', 'I', 'J', 'K', 'L', 'M', 'N', 'O', 'P',
        ];
        match self {
            EitherOfWrapper::Single => ts,
            EitherOfWrapper::Duo if i == 0 => {
                tok1(ts)
            }
            EitherOfWrapper::Duo => {
                tok1(ts)
            }
            EitherOfWrapper::Multiple(ident) => {
                let variant = ident_letter(LETTERS[i]);
                tok1(ts)
            }
            EitherOfWrapper::Nested(last) => match i {
                0..=14 => {
                    let variant = ident_letter(LETTERS[i]);
                    tok1(ts)
                }
                15.. => {
                    let variant = ident_letter(LETTERS[15]);
                    let ts = last.wrap(i - 15, ts);
                    tok1(ts)
                }
            },
        }
    }
}

} // verus!
fn main() {}
