use vstd::prelude::*;
verus! {

pub open spec fn esc_char(c: char) -> Seq<char> {
    if c == '"' { seq!['\\', '"'] }
    else if c == '\\' { seq!['\\', '\\'] }
    else if c == '\n' { seq!['\\', 'n'] }
    else { seq![c] }
}

pub open spec fn esc(s: Seq<char>) -> Seq<char>
    decreases s.len()
{
    if s.len() == 0 { Seq::empty() } else { esc(s.drop_last()) + esc_char(s.last()) }
}

fn escape_into(buf: &mut String, s: &str)
    ensures final(buf)@ == old(buf)@ + esc(s@)
{
    let ghost start = buf@;
    for c in it: s.chars()
        invariant
            buf@ == start + esc(s@.take(it.index@ as int)),
            0 <= it.index@ <= s@.len(),
    {
        proof {
            assert(c == s@[it.index@ as int]);
            assert(s@.take(it.index@ + 1).drop_last() == s@.take(it.index@ as int));
            assert(s@.take(it.index@ + 1).last() == c);
            reveal_strlit("\\\"");
            reveal_strlit("\\\\");
            reveal_strlit("\\n");
            assert("\\\""@ =~= seq!['\\', '"']);
            assert("\\\\"@ =~= seq!['\\', '\\']);
            assert("\\n"@ =~= seq!['\\', 'n']);
        }
        match c {
            '"' => buf.push_str("\\\""),
            '\\' => buf.push_str("\\\\"),
            '\n' => buf.push_str("\\n"),
            c => buf.push(c),
        }
    }
    proof { assert(s@.take(s@.len() as int) == s@); }
}

} // verus!
fn main() {}
