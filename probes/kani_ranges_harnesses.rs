#![allow(dead_code, unused)]
use super::*;
use core::ops::RangeBounds;

/// Oracle: Rust's own range semantics (std's RangeBounds::contains, `==`, iter().any).
pub fn rust_contains<T: RangeNumber>(r: &Range<T>, n: &T) -> bool {
    match r {
        Range::Exact(v) => *v == *n,
        Range::Bounds { start, end } => {
            let lo = match start { Some(s) => Bound::Included(*s), None => Bound::Unbounded };
            (lo, *end).contains(n)
        }
        Range::Multiple(rs) => { let mut any = false; for x in rs { if rust_contains(x, n) { any = true; } } any }
        Range::Fallback => true,
    }
}
#[allow(clippy::eq_op)]
pub fn no_nan<T: RangeNumber>(r: &Range<T>, n: &T) -> bool {
    let ok = |x: &T| *x == *x;
    ok(n) && match r {
        Range::Exact(v) => ok(v),
        Range::Bounds { start, end } => (match start { Some(s) => ok(s), None => true }) && (match end { Bound::Included(e) | Bound::Excluded(e) => ok(e), Bound::Unbounded => true }),
        Range::Multiple(rs) => { let mut all = true; for x in rs { if !no_nan(x, n) { all = false; } } all }
        Range::Fallback => true,
    }
}

fn any_bound<T: kani::Arbitrary>() -> Bound<T> { match kani::any::<u8>() % 3 { 0 => Bound::Included(kani::any()), 1 => Bound::Excluded(kani::any()), _ => Bound::Unbounded } }
fn any_flat<T: kani::Arbitrary>() -> Range<T> {
    match kani::any::<u8>() % 3 { 0 => Range::Exact(kani::any()), 1 => Range::Bounds { start: kani::any(), end: any_bound() }, _ => Range::Fallback }
}

#[kani::proof]
#[kani::unwind(4)]
fn do_match_i64_contract() {
    let r: Range<i64> = if kani::any() { any_flat() } else { Range::Multiple(vec![any_flat(), any_flat()]) };
    let n: i64 = kani::any();
    let _ = r.do_match(n);
    core::mem::forget(r);
}

#[kani::proof]
#[kani::unwind(4)]
fn do_match_f32_contract() {
    let r: Range<f32> = if kani::any() { any_flat() } else { Range::Multiple(vec![any_flat(), any_flat()]) };
    let n: f32 = kani::any();
    let _ = r.do_match(n);
    core::mem::forget(r);
}

#[kani::proof]
#[kani::unwind(3)]
fn do_match_i64_contract_flat() {
    let r: Range<i64> = any_flat();
    let n: i64 = kani::any();
    let _ = r.do_match(n);
    core::mem::forget(r);
}

#[kani::proof]
#[kani::unwind(4)]
fn do_match_i64_multiple_plain() {
    let r: Range<i64> = Range::Multiple(vec![any_flat(), any_flat()]);
    let n: i64 = kani::any();
    let got = r.do_match(n);
    let want = rust_contains(&r, &n);
    core::mem::forget(r);
    assert!(got == want);
}

#[kani::proof]
#[kani::unwind(4)]
fn do_match_i64_multiple_fixed_shapes() {
    let r: Range<i64> = Range::Multiple(vec![
        Range::Exact(kani::any()),
        Range::Bounds { start: kani::any(), end: any_bound() },
    ]);
    let n: i64 = kani::any();
    let got = r.do_match(n);
    let want = match &r { Range::Multiple(v) => {
        let a = match &v[0] { Range::Exact(x) => *x == n, _ => false };
        let b = match &v[1] { Range::Bounds { start, end } => (match start { Some(s) => Bound::Included(*s), None => Bound::Unbounded }, *end).contains(&n), _ => false };
        a || b }, _ => false };
    core::mem::forget(r);
    assert!(got == want);
}
