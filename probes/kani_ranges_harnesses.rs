#![allow(dead_code, unused)]
use super::*;

#[kani::proof]
fn end_bound_i8() {
    let x: i8 = kani::any();
    let _ = x.range_end_bound();
}

#[kani::proof]
fn end_bound_u64() {
    let x: u64 = kani::any();
    let _ = x.range_end_bound();
}

#[kani::proof]
fn do_match_bounds_i64() {
    let start: Option<i64> = kani::any();
    let n: i64 = kani::any();
    let e: i64 = kani::any();
    let which: u8 = kani::any();
    let end = match which % 3 { 0 => Bound::Included(e), 1 => Bound::Excluded(e), _ => Bound::Unbounded };
    let r = Range::Bounds { start, end };
    let got = r.do_match(n);
    let lo_ok = match start { Some(s) => s <= n, None => true };
    let hi_ok = match end { Bound::Included(e) => n <= e, Bound::Excluded(e) => n < e, Bound::Unbounded => true };
    assert!(got == (lo_ok && hi_ok));
}

#[kani::proof]
fn do_match_bounds_f64() {
    let start: Option<f64> = kani::any();
    let n: f64 = kani::any();
    let e: f64 = kani::any();
    let which: u8 = kani::any();
    let end = match which % 3 { 0 => Bound::Included(e), 1 => Bound::Excluded(e), _ => Bound::Unbounded };
    let r = Range::Bounds { start, end };
    let got = r.do_match(n);
    // oracle: Rust's own RangeBounds::contains on the same bounds
    let want = core::ops::RangeBounds::contains(&(match start { Some(s) => Bound::Included(s), None => Bound::Unbounded }, end), &n);
    assert!(got == want);
}

#[kani::proof]
#[kani::unwind(2)]
fn do_match_bounds_i64_forget() {
    let start: Option<i64> = kani::any();
    let n: i64 = kani::any();
    let e: i64 = kani::any();
    let which: u8 = kani::any();
    let end = match which % 3 { 0 => Bound::Included(e), 1 => Bound::Excluded(e), _ => Bound::Unbounded };
    let r = Range::Bounds { start, end };
    let got = r.do_match(n);
    core::mem::forget(r);
    let lo_ok = match start { Some(s) => s <= n, None => true };
    let hi_ok = match end { Bound::Included(e) => n <= e, Bound::Excluded(e) => n < e, Bound::Unbounded => true };
    assert!(got == (lo_ok && hi_ok));
}

#[kani::proof]
#[kani::unwind(2)]
fn do_match_bounds_f64_forget() {
    let start: Option<f64> = kani::any();
    let n: f64 = kani::any();
    let e: f64 = kani::any();
    let which: u8 = kani::any();
    let end = match which % 3 { 0 => Bound::Included(e), 1 => Bound::Excluded(e), _ => Bound::Unbounded };
    let r = Range::Bounds { start, end };
    let got = r.do_match(n);
    core::mem::forget(r);
    let want = core::ops::RangeBounds::contains(&(match start { Some(s) => Bound::Included(s), None => Bound::Unbounded }, end), &n);
    assert!(got == want);
}
