// Harness crate for property C14, second sentence, segment level only (std only, no leptos_router).
//   src/extracted.rs is regenerated from /repo on every run by tools/c14seg_extract.py:
//   `struct PathBuilder` + its inherent impl, `match_path_segments`, `construct_path_segments` of
//   leptos_i18n_router/src/routing.rs, verbatim.
// Everything in *this* file is shim or harness.  Shims (assumptions, listed in evidence): `PathSegment` = the
// definition of leptos_router 0.7.8 copied (enum of Cow<'static, str>), `HashSet<T>` = an array-backed set with the
// three methods the code uses (std's hasher does not finish under CBMC).
#![allow(dead_code, unused)]
use std::borrow::Cow;

#[derive(Debug, Clone, PartialEq, Eq)]
pub enum PathSegment {
    Unit,
    Static(Cow<'static, str>),
    Param(Cow<'static, str>),
    OptionalParam(Cow<'static, str>),
    Splat(Cow<'static, str>),
}

pub const CAP: usize = 4;
pub struct HashSet<T> { items: [Option<T>; CAP], len: usize }
impl<T: Copy + PartialEq> HashSet<T> {
    pub fn new() -> Self { HashSet { items: [None; CAP], len: 0 } }
    pub fn contains(&self, v: &T) -> bool {
        let mut i = 0;
        while i < CAP { if i < self.len && self.items[i] == Some(*v) { return true; } i += 1; }
        false
    }
    pub fn insert(&mut self, v: T) -> bool {
        if self.contains(&v) { return false; }
        assert!(self.len < CAP);
        self.items[self.len] = Some(v);
        self.len += 1;
        true
    }
}

include!("extracted.rs");

/// the segments a builder holds after `new()` + pushes, without the leading "" of `new()`
pub fn built<'a, 'b>(pb: &'b PathBuilder<'a>) -> &'b [&'a str] { &pb.0[1..] }

pub const SEGS: [&str; 3] = ["a", "docs", "x"];
/// route alphabet: every variant, an empty static, statics and optional-parameter names that do / do not occur as
/// path segments
pub fn route_seg(code: u8) -> PathSegment {
    match code {
        0 => PathSegment::Unit,
        1 => PathSegment::Static(Cow::Borrowed("")),
        2 => PathSegment::Static(Cow::Borrowed("a")),
        3 => PathSegment::Static(Cow::Borrowed("docs")),
        4 => PathSegment::Param(Cow::Borrowed("id")),
        5 => PathSegment::OptionalParam(Cow::Borrowed("a")),
        6 => PathSegment::OptionalParam(Cow::Borrowed("opt")),
        _ => PathSegment::Splat(Cow::Borrowed("rest")),
    }
}
pub const ROUTE_CODES: u8 = 8;
/// the same route in another locale: the static `docs` is localized, everything else is the same segment
pub fn localized(code: u8) -> PathSegment {
    if code == 3 { PathSegment::Static(Cow::Borrowed("documents")) } else { route_seg(code) }
}

/// C14 (second sentence, segment level), written from the property text.
/// (a) rewriting a matched path against the *same* route table changes nothing: every segment is preserved, in order;
/// (b) rewriting to the other locale's table and back yields the original segments.
pub fn check_identity(segs: &[&'static str], codes: &[u8]) {
    let route: Vec<PathSegment> = codes.iter().map(|c| route_seg(*c)).collect();
    if let Some(opt) = match_path_segments(segs, &route) {
        let mut pb = PathBuilder::new();
        construct_path_segments(segs, &route, &mut pb, &opt);
        assert!(pb.0[0] == "");
        let out = built(&pb);
        assert!(out.len() == segs.len());
        let mut i = 0;
        while i < segs.len() { assert!(out[i] == segs[i]); i += 1; }
    }
}
pub fn check_round_trip(segs: &[&'static str], codes: &[u8]) {
    let route_a: Vec<PathSegment> = codes.iter().map(|c| route_seg(*c)).collect();
    let route_b: Vec<PathSegment> = codes.iter().map(|c| localized(*c)).collect();
    if let Some(opt) = match_path_segments(segs, &route_a) {
        let mut pb = PathBuilder::new();
        construct_path_segments(segs, &route_b, &mut pb, &opt);
        let there: Vec<&str> = built(&pb).to_vec();
        // as many segments as before: only localized statics are replaced
        assert!(there.len() == segs.len());
        let back_opt = match_path_segments(&there, &route_b);
        assert!(back_opt.is_some());
        let mut pb2 = PathBuilder::new();
        construct_path_segments(&there, &route_a, &mut pb2, &back_opt.unwrap());
        let back = built(&pb2);
        assert!(back.len() == segs.len());
        let mut i = 0;
        while i < segs.len() { assert!(back[i] == segs[i]); i += 1; }
    }
}

#[cfg(test)]
mod native {
    use super::*;
    #[test]
    fn exhaustive_small() {
        // every path of <= 3 segments x every route of <= 3 segments (native, for the harness itself)
        for n in 0..=3usize { for m in 0..=3usize {
            let mut sidx = vec![0usize; n];
            loop {
                let segs: Vec<&'static str> = sidx.iter().map(|i| SEGS[*i]).collect();
                let mut codes = vec![0u8; m];
                loop {
                    check_identity(&segs, &codes);
                    check_round_trip(&segs, &codes);
                    let mut k = 0; while k < m { codes[k] += 1; if codes[k] < ROUTE_CODES { break; } codes[k] = 0; k += 1; }
                    if k == m { break; }
                }
                let mut k = 0; while k < n { sidx[k] += 1; if sidx[k] < SEGS.len() { break; } sidx[k] = 0; k += 1; }
                if k == n { break; }
            }
        } }
    }
}

#[cfg(kani)]
mod proofs {
    use super::*;
    fn any_segs<const N: usize>() -> [&'static str; N] {
        let mut out = [""; N];
        let mut i = 0;
        while i < N { let k: usize = kani::any(); kani::assume(k < SEGS.len()); out[i] = SEGS[k]; i += 1; }
        out
    }
    fn any_codes<const M: usize>() -> [u8; M] {
        let c: [u8; M] = kani::any();
        let mut i = 0;
        while i < M { kani::assume(c[i] < ROUTE_CODES); i += 1; }
        c
    }
    fn identity<const N: usize, const M: usize>() { check_identity(&any_segs::<N>(), &any_codes::<M>()); }
    fn round_trip<const N: usize, const M: usize>() { check_round_trip(&any_segs::<N>(), &any_codes::<M>()); }
    fn satisfiable<const N: usize, const M: usize>() {
        let segs = any_segs::<N>(); let codes = any_codes::<M>();
        let route: Vec<PathSegment> = codes.iter().map(|c| route_seg(*c)).collect();
        kani::cover!(match_path_segments(&segs, &route).is_some());
        kani::cover!(N == 0 || M == 0 || match_path_segments(&segs, &route).is_none());
    }
    macro_rules! shapes { ($($m:ident: $n:expr, $k:expr;)*) => { $(
        mod $m {
            use super::*;
            #[kani::proof] #[kani::unwind(12)] fn precondition_satisfiable() { satisfiable::<$n, $k>() }
            #[kani::proof] #[kani::unwind(12)] fn identity_rewrite() { identity::<$n, $k>() }
            #[kani::proof] #[kani::unwind(12)] fn there_and_back() { round_trip::<$n, $k>() }
        }
    )* } }
    shapes! { s1_1: 1, 1; s1_2: 1, 2; s2_1: 2, 1; s2_2: 2, 2; s2_3: 2, 3; s3_2: 3, 2; s3_3: 3, 3; }
}
