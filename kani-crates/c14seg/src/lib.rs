// Harness crate for property C14, second sentence, segment level only (std only, no leptos_router).
//   src/extracted.rs is regenerated from /repo on every run by tools/c14seg_extract.py:
//   `struct PathBuilder` + its inherent impl, `match_path_segments`, `construct_path_segments` of
//   leptos_i18n_router/src/routing.rs, verbatim.
// Everything in *this* file is shim or harness.  Shims (assumptions, listed in evidence): `PathSegment` = the
// definition of leptos_router 0.7.8 copied (enum of Cow<'static, str>), `HashSet<T>` = an array-backed set with the
// three methods the code uses (std's hasher does not finish under CBMC).
#![allow(dead_code, unused)]
use std::borrow::Cow;

#[derive(Debug, Clone, PartialEq, Eq)]
pub enum PathSegment {
    Unit,
    Static(Cow<'static, str>),
    Param(Cow<'static, str>),
    OptionalParam(Cow<'static, str>),
    Splat(Cow<'static, str>),
}

pub const CAP: usize = 4;
pub struct HashSet<T> { items: [Option<T>; CAP], len: usize }
impl<T: Copy + PartialEq> HashSet<T> {
    pub fn new() -> Self { HashSet { items: [None; CAP], len: 0 } }
    pub fn contains(&self, v: &T) -> bool {
        let mut i = 0;
        while i < CAP { if i < self.len && self.items[i] == Some(*v) { return true; } i += 1; }
        false
    }
    pub fn insert(&mut self, v: T) -> bool {
        if self.contains(&v) { return false; }
        assert!(self.len < CAP);
        self.items[self.len] = Some(v);
        self.len += 1;
        true
    }
}

include!("extracted.rs");

/// the segments a builder holds after `new()` + pushes, without the leading "" of `new()`
fn built<'a, 'b>(pb: &'b PathBuilder<'a>) -> &'b [&'a str] { &pb.0[1..] }

pub const SEGS: [&str; 3] = ["a", "docs", "x"];
/// route alphabet: every variant, an empty static, statics and optional-parameter names that do / do not occur as
/// path segments
pub fn route_seg(code: u8) -> PathSegment {
    match code {
        0 => PathSegment::Unit,
        1 => PathSegment::Static(Cow::Borrowed("")),
        2 => PathSegment::Static(Cow::Borrowed("a")),
        3 => PathSegment::Static(Cow::Borrowed("docs")),
        4 => PathSegment::Param(Cow::Borrowed("id")),
        5 => PathSegment::OptionalParam(Cow::Borrowed("a")),
        6 => PathSegment::OptionalParam(Cow::Borrowed("opt")),
        _ => PathSegment::Splat(Cow::Borrowed("rest")),
    }
}
pub const ROUTE_CODES: u8 = 8;
/// the same route in another locale: the static `docs` is localized, everything else is the same segment
pub fn localized(code: u8) -> PathSegment {
    if code == 3 { PathSegment::Static(Cow::Borrowed("documents")) } else { route_seg(code) }
}

/// C14 (second sentence, segment level), written from the property text.
/// (a) rewriting a matched path against the *same* route table changes nothing: every segment is preserved, in order;
/// (b) rewriting to the other locale's table and back yields the original segments.
pub fn check_identity(segs: &[&'static str], codes: &[u8]) {
    let route: Vec<PathSegment> = codes.iter().map(|c| route_seg(*c)).collect();
    if let Some(opt) = match_path_segments(segs, &route) {
        let mut pb = PathBuilder::new();
        construct_path_segments(segs, &route, &mut pb, &opt);
        assert!(pb.0[0] == "");
        let out = built(&pb);
        assert!(out.len() == segs.len());
        let mut i = 0;
        while i < segs.len() { assert!(out[i] == segs[i]); i += 1; }
        // the rebuilt path text: `/` + the segments joined by `/` (`/` alone for no segment)
        let want = if segs.is_empty() { "/".to_owned() } else { format!("/{}", segs.join("/")) };
        assert!(pb.build() == want);
    }
}
/// (c) the same at the level of the path text, through `localize_path` (splitting, choice among several routes):
/// a path -- written with a trailing or a doubled slash or neither -- localized against the *same* table of two
/// routes is `/` + its segments joined by `/`; a path that matches no route is reported as such (None).
pub fn check_localize_text(segs: &[&'static str], codes: &[u8], style: u8) {
    let cut = codes.len() / 2;
    let table: Vec<Vec<PathSegment>> = vec![codes[..cut].iter().map(|c| route_seg(*c)).collect(),
                                             codes[cut..].iter().map(|c| route_seg(*c)).collect()];
    let mut text = String::new();
    for s in segs { text.push('/'); if style == 2 { text.push('/'); } text.push_str(s); }
    if style == 1 || segs.is_empty() { text.push('/'); }
    let matches_some = table.iter().any(|r| match_path_segments(segs, r).is_some());
    let mut pb = PathBuilder::new();
    let r = localize_path(&text, &table, &table, &mut pb);
    assert!(r.is_some() == matches_some);
    if r.is_some() {
        let want = if segs.is_empty() { "/".to_owned() } else { format!("/{}", segs.join("/")) };
        assert!(pb.build() == want);
    }
}
/// (d) through `localize_path` with a table of two routes per locale: there (`docs` localized) and back is the
/// original normalised text
pub fn check_table_round_trip(segs: &[&'static str], codes: &[u8]) {
    let cut = codes.len() / 2;
    let table_a: Vec<Vec<PathSegment>> = vec![codes[..cut].iter().map(|c| route_seg(*c)).collect(),
                                               codes[cut..].iter().map(|c| route_seg(*c)).collect()];
    let table_b: Vec<Vec<PathSegment>> = vec![codes[..cut].iter().map(|c| localized(*c)).collect(),
                                               codes[cut..].iter().map(|c| localized(*c)).collect()];
    let text = if segs.is_empty() { "/".to_owned() } else { format!("/{}", segs.join("/")) };
    let mut pb = PathBuilder::new();
    if localize_path(&text, &table_a, &table_b, &mut pb).is_some() {
        let there = pb.build();
        let mut pb2 = PathBuilder::new();
        assert!(localize_path(&there, &table_b, &table_a, &mut pb2).is_some());
        assert!(pb2.build() == text);
    }
}
pub fn check_round_trip(segs: &[&'static str], codes: &[u8]) {
    let route_a: Vec<PathSegment> = codes.iter().map(|c| route_seg(*c)).collect();
    let route_b: Vec<PathSegment> = codes.iter().map(|c| localized(*c)).collect();
    if let Some(opt) = match_path_segments(segs, &route_a) {
        let mut pb = PathBuilder::new();
        construct_path_segments(segs, &route_b, &mut pb, &opt);
        let there: Vec<&str> = built(&pb).to_vec();
        // as many segments as before: only localized statics are replaced
        assert!(there.len() == segs.len());
        let back_opt = match_path_segments(&there, &route_b);
        assert!(back_opt.is_some());
        let mut pb2 = PathBuilder::new();
        construct_path_segments(&there, &route_a, &mut pb2, &back_opt.unwrap());
        let back = built(&pb2);
        assert!(back.len() == segs.len());
        let mut i = 0;
        while i < segs.len() { assert!(back[i] == segs[i]); i += 1; }
    }
}

/// Bounded stand-in (native): every path of <= MAX_N segments over SEGS x every route of <= MAX_M segments over the
/// route alphabet, both checks on each.  Driven by tools/native_unit.py:
///   C14SEG_MAX_N / C14SEG_MAX_M   bounds (default 3 / 3)
///   C14SEG_ONLY="<check>;<seg indices,>;<route codes,>"   replay of one case
/// Prints `CASES check=<name> n=<count>` and, for the first failing case of each check,
/// `FAIL check=<name> segs=<i,j,..> codes=<c,d,..> path=/a/docs route=<debug> msg=<panic message>`.
#[cfg(test)]
mod native {
    use super::*;
    use std::panic;

    fn run_case(check: &str, sidx: &[usize], codes: &[u8]) -> Result<(), String> {
        let segs: Vec<&'static str> = sidx.iter().map(|i| SEGS[*i]).collect();
        let codes = codes.to_vec();
        let check = check.to_owned();
        let r = panic::catch_unwind(move || {
            if check == "identity_rewrite" { check_identity(&segs, &codes) }
            else if check == "there_and_back" { check_round_trip(&segs, &codes) }
            else if check == "table_round_trip" { check_table_round_trip(&segs, &codes) }
            else { let k = codes.len() - 1; check_localize_text(&segs, &codes[..k], codes[k]) }
        });
        r.map_err(|e| e.downcast_ref::<String>().cloned()
            .or_else(|| e.downcast_ref::<&str>().map(|s| s.to_string())).unwrap_or_default())
    }
    fn report(check: &str, sidx: &[usize], codes: &[u8], msg: &str) {
        let path: Vec<&str> = sidx.iter().map(|i| SEGS[*i]).collect();
        // localize_text: the last code is the spelling of the path text (0 plain, 1 trailing slash, 2 doubled slashes)
        let rc = if check == "localize_text" { &codes[..codes.len() - 1] } else { codes };
        let route: Vec<PathSegment> = rc.iter().map(|c| route_seg(*c)).collect();
        println!("FAIL check={} segs={} codes={} path=/{} route={:?} msg={}", check,
            sidx.iter().map(|x| x.to_string()).collect::<Vec<_>>().join(","),
            codes.iter().map(|x| x.to_string()).collect::<Vec<_>>().join(","),
            path.join("/"), route, msg.replace('\n', " "));
    }
    fn nums<T: std::str::FromStr>(s: &str) -> Vec<T> { s.split(',').filter(|x| !x.is_empty()).filter_map(|x| x.parse().ok()).collect() }

    #[test]
    fn exhaustive_small() {
        panic::set_hook(Box::new(|_| {}));
        println!();
        if let Ok(only) = std::env::var("C14SEG_ONLY") {
            let parts: Vec<&str> = only.split(';').collect();
            let (sidx, codes) = (nums::<usize>(parts[1]), nums::<u8>(parts[2]));
            if let Err(msg) = run_case(parts[0], &sidx, &codes) { report(parts[0], &sidx, &codes, &msg); std::process::exit(1); }
            println!("CASES check={} n=1", parts[0]);
            return;
        }
        let max_n: usize = std::env::var("C14SEG_MAX_N").ok().and_then(|v| v.parse().ok()).unwrap_or(3);
        let max_m: usize = std::env::var("C14SEG_MAX_M").ok().and_then(|v| v.parse().ok()).unwrap_or(3);
        let mut failed = false;
        for check in ["identity_rewrite", "there_and_back", "localize_text", "table_round_trip"] {
            let mut cases = 0u64;
            let mut first: Option<(Vec<usize>, Vec<u8>, String)> = None;
            for n in 0..=max_n { for m in 0..=max_m {
                let mut sidx = vec![0usize; n];
                loop {
                    let mut codes = vec![0u8; m];
                    loop {
                        if check == "localize_text" {
                            for style in 0..3u8 {
                                cases += 1;
                                let mut c2 = codes.clone(); c2.push(style);
                                if first.is_none() {
                                    if let Err(msg) = run_case(check, &sidx, &c2) { first = Some((sidx.clone(), c2, msg)); }
                                }
                            }
                        } else {
                        cases += 1;
                        if first.is_none() {
                            if let Err(msg) = run_case(check, &sidx, &codes) { first = Some((sidx.clone(), codes.clone(), msg)); }
                        }
                        }
                        let mut k = 0; while k < m { codes[k] += 1; if codes[k] < ROUTE_CODES { break; } codes[k] = 0; k += 1; }
                        if k == m { break; }
                    }
                    let mut k = 0; while k < n { sidx[k] += 1; if sidx[k] < SEGS.len() { break; } sidx[k] = 0; k += 1; }
                    if k == n { break; }
                }
            } }
            println!("CASES check={} n={}", check, cases);
            if let Some((s, c, msg)) = first { report(check, &s, &c, &msg); failed = true; }
        }
        if failed { std::process::exit(1); }
    }
}

#[cfg(kani)]
mod proofs {
    use super::*;
    fn any_segs<const N: usize>() -> [&'static str; N] {
        let mut out = [""; N];
        let mut i = 0;
        while i < N { let k: usize = kani::any(); kani::assume(k < SEGS.len()); out[i] = SEGS[k]; i += 1; }
        out
    }
    fn any_codes<const M: usize>() -> [u8; M] {
        let c: [u8; M] = kani::any();
        let mut i = 0;
        while i < M { kani::assume(c[i] < ROUTE_CODES); i += 1; }
        c
    }
    fn identity<const N: usize, const M: usize>() { check_identity(&any_segs::<N>(), &any_codes::<M>()); }
    fn round_trip<const N: usize, const M: usize>() { check_round_trip(&any_segs::<N>(), &any_codes::<M>()); }
    fn satisfiable<const N: usize, const M: usize>() {
        let segs = any_segs::<N>(); let codes = any_codes::<M>();
        let route: Vec<PathSegment> = codes.iter().map(|c| route_seg(*c)).collect();
        kani::cover!(match_path_segments(&segs, &route).is_some());
        kani::cover!(N == 0 || M == 0 || match_path_segments(&segs, &route).is_none());
    }
    macro_rules! shapes { ($($m:ident: $n:expr, $k:expr;)*) => { $(
        mod $m {
            use super::*;
            #[kani::proof] #[kani::unwind(12)] fn precondition_satisfiable() { satisfiable::<$n, $k>() }
            #[kani::proof] #[kani::unwind(12)] fn identity_rewrite() { identity::<$n, $k>() }
            #[kani::proof] #[kani::unwind(12)] fn there_and_back() { round_trip::<$n, $k>() }
        }
    )* } }
    shapes! { s1_1: 1, 1; s1_2: 1, 2; s2_1: 2, 1; s2_2: 2, 2; s2_3: 2, 3; s3_2: 3, 2; s3_3: 3, 3; }
}
