// Harness crate for property C14, first sentence only (std only, no leptos_router).
//   src/extracted.rs is regenerated from /repo on every run by tools/c14_extract.py:
//   `get_locale_from_path` of leptos_i18n_router/src/routing.rs, verbatim.
// Everything in *this* file is shim or harness.  The shim is an assumption (listed in evidence): `trait Locale`
// reduced to the two methods the function uses, with three locales whose names are prefixes of each other and of
// ordinary words (`en`, `en-US`, `fr`).
#![allow(dead_code, unused)]

pub trait Locale: 'static + Copy + PartialEq {
    fn get_all() -> &'static [Self];
    fn as_str(self) -> &'static str;
}
#[derive(Clone, Copy, PartialEq, Eq, Debug)]
pub enum L3 { En, EnUs, Fr }
impl Locale for L3 {
    fn get_all() -> &'static [Self] { &[L3::En, L3::EnUs, L3::Fr] }
    fn as_str(self) -> &'static str { match self { L3::En => "en", L3::EnUs => "en-US", L3::Fr => "fr" } }
}
/// the same locales, listed the other way round (the order of `get_all` must not matter)
#[derive(Clone, Copy, PartialEq, Eq, Debug)]
pub enum R3 { Fr, EnUs, En }
impl Locale for R3 {
    fn get_all() -> &'static [Self] { &[R3::Fr, R3::EnUs, R3::En] }
    fn as_str(self) -> &'static str { match self { R3::En => "en", R3::EnUs => "en-US", R3::Fr => "fr" } }
}

include!("extracted.rs");

/// C14, written from the property text: the locale named by the first path segment after the base path
/// (`rest` = what follows the base path), if that segment *is* a locale name; 0 = none, 1 = en, 2 = en-US, 3 = fr
pub fn first_segment_locale(rest: &[u8]) -> u8 {
    let mut st = 0;
    while st < rest.len() && rest[st] == b'/' { st += 1; }
    let mut en = st;
    while en < rest.len() && rest[en] != b'/' { en += 1; }
    let seg = &rest[st..en];
    if seg == b"en" { 1 } else if seg == b"en-US" { 2 } else if seg == b"fr" { 3 } else { 0 }
}
pub fn code_l3(l: Option<L3>) -> u8 { match l { None => 0, Some(L3::En) => 1, Some(L3::EnUs) => 2, Some(L3::Fr) => 3 } }
pub fn code_r3(l: Option<R3>) -> u8 { match l { None => 0, Some(R3::En) => 1, Some(R3::EnUs) => 2, Some(R3::Fr) => 3 } }

#[cfg(kani)]
mod proofs {
    use super::*;

    /// a path of N bytes over the characters of the locale names, `/`, and one other letter
    fn any_path<const N: usize>() -> [u8; N] {
        let bytes: [u8; N] = kani::any();
        let mut i = 0;
        while i < N {
            let b = bytes[i];
            kani::assume(b == b'/' || b == b'-' || b == b'e' || b == b'n' || b == b'U' || b == b'S' || b == b'f' || b == b'r' || b == b'x');
            i += 1;
        }
        bytes
    }

    fn check_root<const N: usize>() {
        let bytes = any_path::<N>();
        let s = std::str::from_utf8(&bytes).unwrap();
        assert!(code_l3(get_locale_from_path::<L3>(s, "")) == first_segment_locale(&bytes));
        assert!(code_r3(get_locale_from_path::<R3>(s, "")) == first_segment_locale(&bytes));
    }
    /// base path `/a`: the path is `/a` followed by nothing or by `/...`
    fn check_base<const N: usize>() {
        let tail = any_path::<N>();
        kani::assume(N == 0 || tail[0] == b'/');
        let mut full = [0u8; 16];
        full[0] = b'/'; full[1] = b'a';
        let mut i = 0;
        while i < N { full[2 + i] = tail[i]; i += 1; }
        let s = std::str::from_utf8(&full[..2 + N]).unwrap();
        assert!(code_l3(get_locale_from_path::<L3>(s, "/a")) == first_segment_locale(&tail));
        assert!(code_r3(get_locale_from_path::<R3>(s, "a/")) == first_segment_locale(&tail));
    }
    fn satisfiable<const N: usize>() {
        let bytes = any_path::<N>();
        kani::cover!(N < 3 || first_segment_locale(&bytes) == 1);
        kani::cover!(N < 6 || first_segment_locale(&bytes) == 2);
    }

    macro_rules! lens { ($($m:ident: $n:expr, $u:expr;)*) => { $(
        mod $m {
            use super::*;
            #[kani::proof] #[kani::unwind($u)] fn precondition_satisfiable() { satisfiable::<$n>() }
            #[kani::proof] #[kani::unwind($u)] fn root() { check_root::<$n>() }
            #[kani::proof] #[kani::unwind($u)] fn base() { check_base::<$n>() }
        }
    )* } }
    lens! { len_0: 0, 8; len_1: 1, 8; len_2: 2, 8; len_3: 3, 9; len_4: 4, 10; len_5: 5, 11; len_6: 6, 12; len_7: 7, 13; }
}
