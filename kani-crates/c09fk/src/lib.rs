// Harness crate for property C09 (one more panic site): the scan for the `{..}` argument object of a foreign key
// `$t(key, {..})`.   src/extracted.rs is regenerated from /repo on every run by tools/c09fk_extract.py: the statements
// of ParsedValue::parse_foreign_key_args up to the split, lifted verbatim (rule E3).
// Everything in *this* file is shim or harness.  Shims (assumptions): Key / KeyPath are opaque clonable values,
// Error has the one variant the statements build, Result is the parser's `Result<T, Box<Error>>`.
#![allow(dead_code, unused)]

#[derive(Clone, Debug)] pub struct Key(pub u8);
#[derive(Clone, Debug)] pub struct KeyPath(pub u8);
#[derive(Debug)]
pub enum Error {
    UnexpectedToken { locale: Key, key_path: KeyPath, message: String },
}
pub type Result<T> = core::result::Result<T, Box<Error>>;

include!("extracted.rs");

#[cfg(kani)]
mod proofs {
    use super::*;

    /// every string of exactly N bytes that is valid UTF-8 (so: multibyte characters included), with the two braces
    /// made likely by the alphabet: `{`, `}`, `a`, space, and the bytes of `é` (2 bytes) and `€` (3 bytes)
    fn any_text<const N: usize>() -> [u8; N] {
        let bytes: [u8; N] = kani::any();
        let mut i = 0;
        while i < N {
            let b = bytes[i];
            kani::assume(b == b'{' || b == b'}' || b == b'a' || b == b' ' || b == 0xC3 || b == 0xA9 || b == 0xE2 || b == 0x82 || b == 0xAC);
            i += 1;
        }
        bytes
    }

    /// C09: no panic (no out-of-range split, no split inside a character) for any text; and when the answer is Ok
    /// the two parts are the text cut right after the brace that closes the first `{`
    fn no_panic<const N: usize>() {
        let bytes = any_text::<N>();
        let Ok(s) = std::str::from_utf8(&bytes) else { return; };
        let k = Key(0);
        let p = KeyPath(0);
        match split_foreign_key_args(s, &p, &k) {
            Err(_) => {}
            Ok((before, after)) => {
                assert!(before.len() + after.len() == s.len());
                // `before` is one balanced object: it ends with the closing brace
                assert!(before.as_bytes()[before.len() - 1] == b'}');
            }
        }
    }
    fn satisfiable<const N: usize>() {
        let bytes = any_text::<N>();
        kani::cover!(std::str::from_utf8(&bytes).is_ok());
    }

    macro_rules! lens { ($($m:ident: $n:expr, $u:expr;)*) => { $(
        mod $m {
            use super::*;
            #[kani::proof] #[kani::unwind($u)] fn precondition_satisfiable() { satisfiable::<$n>() }
            #[kani::proof] #[kani::unwind($u)] fn no_panic() { super::no_panic::<$n>() }
        }
    )* } }
    lens! { len_0: 0, 4; len_1: 1, 5; len_2: 2, 6; len_3: 3, 7; len_4: 4, 8; len_5: 5, 9; len_6: 6, 10; len_7: 7, 11; }
}
