// Harness crate for property C15 (std only, no leptos).
//   src/extracted.rs is regenerated from /repo on every run by tools/c15_extract.py:
//   the decision functions of leptos_i18n/src/fetch_locale.rs verbatim, and (rule E1) the body of the
//   `Memo::new(move |prev_locale| ..)` closure of context.rs::init_subcontext_with_options lifted
//   into a function whose parameters replace the three signal reads.
// Everything in *this* file is shim or harness: the shims are assumptions (listed in evidence).
#![allow(dead_code, unused)]
use std::cell::Cell;

// ---------------- shims (assumptions) ----------------
/// `trait Locale` reduced to what the decision code uses.
pub trait Locale: 'static + Copy + Default + PartialEq + Send + Sync {
    fn of_index(i: u8) -> Self;
}
#[derive(Clone, Copy, PartialEq, Eq, Debug, Default)]
pub enum L3 { #[default] A, B, C }
impl Locale for L3 {
    fn of_index(i: u8) -> Self { match i % 3 { 0 => L3::A, 1 => L3::B, _ => L3::C } }
}
#[derive(Default)]
pub struct UseLocalesOptions;

thread_local! {
    static HTML: Cell<Option<u8>> = const { Cell::new(None) };
    static ACCEPTED: Cell<u8> = const { Cell::new(0) };
}
/// the `lang` attribute of <html>, already parsed (parsing is the generated FromStr: C13)
fn get_locale_from_html<L: Locale>() -> Option<L> { HTML.get().map(L::of_index) }
/// best match for Accept-Language / navigator.languages (negotiation itself is C12)
pub fn get_accepted_locale<L: Locale>(_options: UseLocalesOptions) -> L { L::of_index(ACCEPTED.get()) }

/// leptos `Memo`, first evaluation only: the closure is run once with `None` and `get` returns
/// that value (leptos' documented behaviour for the initial run of a memo).
#[derive(Clone, Copy)]
pub struct Memo<T>(T);
impl<T: Clone> Memo<T> {
    pub fn new(f: impl Fn(Option<&T>) -> T) -> Self { Memo(f(None)) }
    pub fn get(&self) -> T { self.0.clone() }
}

include!("extracted.rs");

#[cfg(kani)]
mod proofs {
    use super::*;
    fn any_l() -> L3 { L3::of_index(kani::any()) }
    fn any_ol() -> Option<L3> { if kani::any() { Some(any_l()) } else { None } }

    /// cookie (when it holds a configured locale), otherwise the negotiated locale; with the
    /// hydrate feature the server's choice in <html lang> comes first (documented in locale.rs)
    #[kani::proof]
    fn resolve_locale_order() {
        let html: Option<u8> = if kani::any() { Some(kani::any::<u8>() % 3) } else { None };
        let acc: u8 = kani::any::<u8>() % 3;
        HTML.set(html);
        ACCEPTED.set(acc);
        let cookie = any_ol();
        let r: L3 = resolve_locale(cookie, UseLocalesOptions);
        let want = if cfg!(feature = "hydrate") && html.is_some() {
            L3::of_index(html.unwrap())
        } else if let Some(c) = cookie {
            c
        } else {
            L3::of_index(acc)
        };
        assert!(r == want);
    }

    /// `signal_maybe_once_then(start, then)`: first value is `start` when given, else `then`
    #[kani::proof]
    fn once_then_first_value() {
        let start = any_ol();
        let then = any_l();
        let m = signal_maybe_once_then(start, Memo(then));
        assert!(m.get() == match start { Some(s) => s, None => then });
    }

    /// the three fetch variants: cookie first (html lang before it under hydrate), else accepted
    #[kani::proof]
    fn fetch_variants_first_value() {
        let html: Option<u8> = if kani::any() { Some(kani::any::<u8>() % 3) } else { None };
        HTML.set(html);
        let cookie = any_ol();
        let accepted = any_l();
        let want = match cookie { Some(c) => c, None => accepted };
        assert!(fetch_locale_ssr(cookie, Memo(accepted)).get() == want);
        assert!(fetch_locale_csr(cookie, Memo(accepted)).get() == want);
        let want_h = match html { Some(h) => L3::of_index(h), None => want };
        assert!(fetch_locale_hydrate(cookie, Memo(accepted)).get() == want_h);
    }

    /// "cookies enabled or not": the cookie is consulted exactly when the `cookie` feature is compiled in
    /// AND the caller did not switch cookies off; otherwise a dummy signal holding `None` is used, so the
    /// precedence above sees "no cookie"
    #[kani::proof]
    fn cookie_consulted_only_when_enabled() {
        let feature: bool = kani::any();
        let option: bool = kani::any();
        assert!(cookie_consulted_context(feature, option) == (feature && option));
        assert!(cookie_consulted_resolve(feature, option) == (feature && option));
    }

    /// sub-context: first run cookie > explicit initial locale > parent; later runs initial > cookie > parent
    #[kani::proof]
    fn subcontext_order() {
        let (i, c, p) = (any_ol(), any_ol(), any_l());
        let first = subcontext_listener(None, i, c, p);
        assert!(first == if let Some(c) = c { c } else if let Some(i) = i { i } else { p });
        let prev = any_l();
        let later = subcontext_listener(Some(&prev), i, c, p);
        assert!(later == if let Some(i) = i { i } else if let Some(c) = c { c } else { p });
    }
}
