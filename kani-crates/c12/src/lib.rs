// Harness crate for property C12 (std only, no icu).
//   src/extracted.rs is regenerated from /repo on every run by tools/c12_extract.py: the seven negotiation
//   functions of leptos_i18n/src/langid.rs, verbatim.
// Everything in *this* file is shim or harness.  The shims are assumptions (listed in evidence):
//   icu_locid's Language / Script / Region / Variant are small codes here (equality and `is_empty` are all the
//   negotiation code asks of them), a language identifier carries at most one variant, and `trait Locale` is
//   reduced to the bounds filter_matches / find_match use (AsRef<LanguageIdentifier> + Copy + Default).
#![allow(dead_code, unused)]
use std::ops::Deref;

// ---------------- shims (assumptions) ----------------
/// 0 is `und` (the empty language)
#[derive(Clone, Copy, PartialEq, Eq, Debug)]
pub struct Language(pub u8);
impl Language {
    pub fn is_empty(&self) -> bool { self.0 == 0 }
}
#[derive(Clone, Copy, PartialEq, Eq, Debug)]
pub struct Script(pub u8);
#[derive(Clone, Copy, PartialEq, Eq, Debug)]
pub struct Region(pub u8);
#[derive(Clone, Copy, PartialEq, Eq, Debug)]
pub struct Variant(pub u8);
/// `icu_locid::subtags::Variants` derefs to a slice; at most one variant here
#[derive(Clone, Copy, Debug)]
pub struct Variants { items: [Variant; 1], len: usize }
impl Variants {
    pub fn new(v: Option<Variant>) -> Self {
        match v { Some(v) => Variants { items: [v], len: 1 }, None => Variants { items: [Variant(0)], len: 0 } }
    }
}
impl Deref for Variants {
    type Target = [Variant];
    fn deref(&self) -> &[Variant] { &self.items[..self.len] }
}
impl PartialEq for Variants {
    fn eq(&self, o: &Self) -> bool { self.len == o.len && (self.len == 0 || self.items[0] == o.items[0]) }
}
impl Eq for Variants {}
#[derive(Clone, Copy, PartialEq, Eq, Debug)]
pub struct LanguageIdentifier {
    pub language: Language,
    pub script: Option<Script>,
    pub region: Option<Region>,
    pub variants: Variants,
}
impl AsRef<LanguageIdentifier> for LanguageIdentifier {
    fn as_ref(&self) -> &LanguageIdentifier { self }
}
/// `trait Locale` reduced to what the negotiation code uses
pub trait Locale: 'static + AsRef<LanguageIdentifier> + Copy + Default {}

include!("extracted.rs");

// ---------------- harness types ----------------
/// a supported locale: its language identifier (the generated enum's `as_langid`)
#[derive(Clone, Copy, PartialEq, Eq, Debug)]
pub struct Loc(pub LanguageIdentifier);
impl AsRef<LanguageIdentifier> for Loc {
    fn as_ref(&self) -> &LanguageIdentifier { &self.0 }
}
/// the default locale: a code outside the symbolic universe, so "fell back to the default" is observable
pub const DEFAULT: Loc = Loc(LanguageIdentifier { language: Language(200), script: None, region: None, variants: Variants { items: [Variant(0)], len: 0 } });
impl Default for Loc {
    fn default() -> Self { DEFAULT }
}
impl Locale for Loc {}

/// C12, written from the property text: a supported locale matches a requested language when it is that
/// language exactly, or a less specific form of it (`fr` for `fr-FR`): every subtag it carries is the request's
pub fn matches_spec(a: &LanguageIdentifier, req: &LanguageIdentifier) -> bool {
    a.language == req.language
        && (a.script.is_none() || a.script == req.script)
        && (a.region.is_none() || a.region == req.region)
        && (a.variants.len == 0 || a.variants == req.variants)
}

#[cfg(kani)]
mod proofs {
    use super::*;

    const NA: usize = 2; // supported locales
    const NR: usize = 2; // requested languages

    fn any_opt(n: u8) -> Option<u8> { if kani::any() { let x: u8 = kani::any(); kani::assume(x >= 1 && x <= n); Some(x) } else { None } }
    /// language in 0..=2 (0 = und), script / region / variant absent or one of two codes
    fn any_langid(allow_und: bool) -> LanguageIdentifier {
        let l: u8 = kani::any();
        kani::assume(l <= 2 && (allow_und || l >= 1));
        LanguageIdentifier { language: Language(l), script: any_opt(2).map(Script), region: any_opt(2).map(Region),
                             variants: Variants::new(any_opt(2).map(Variant)) }
    }

    /// the matching predicate of the code agrees with the property's notion, for every pair in the universe
    /// (loop-free but for the one-element variant slices: complete over the shim domain)
    #[kani::proof]
    #[kani::unwind(3)]
    fn matching_predicate() {
        let a = any_langid(false);
        let r = any_langid(true);
        assert_eq!(lang_id_matches(&a, &r, true, false), matches_spec(&a, &r));
        assert_eq!(lang_id_matches(&a, &r, false, false), a == r);
    }

    fn setup() -> ([Loc; NA], usize, [LanguageIdentifier; NR], usize) {
        let av = [Loc(any_langid(false)), Loc(any_langid(false))];
        let na: usize = kani::any();
        kani::assume(na <= NA);
        // get_all lists every locale once
        kani::assume(!(na >= 2 && av[0] == av[1]));
        let rq = [any_langid(true), any_langid(true)];
        let nr: usize = kani::any();
        kani::assume(nr <= NR);
        (av, na, rq, nr)
    }

    #[kani::proof]
    #[kani::unwind(5)]
    fn precondition_satisfiable() {
        let (av, na, rq, nr) = setup();
        kani::cover!(na == NA && nr == NR && matches_spec(&av[1].0, &rq[1]) && !matches_spec(&av[0].0, &rq[0]));
    }

    /// C12 for up to 3 supported locales and up to 2 requested languages
    #[kani::proof]
    #[kani::unwind(5)]
    fn preference_order() {
        let (av, na, rq, nr) = setup();
        let got: Loc = find_match(&rq[..nr], &av[..na]);
        // the first requested language that some supported locale matches
        let mut first: Option<usize> = None;
        let mut i = 0;
        while i < nr {
            let mut j = 0;
            while j < na {
                if first.is_none() && matches_spec(&av[j].0, &rq[i]) { first = Some(i); }
                j += 1;
            }
            i += 1;
        }
        match first {
            // no match at all: the default locale
            None => assert!(got == DEFAULT),
            Some(i0) => {
                // always a supported locale ...
                let mut member = false;
                let mut exact: Option<Loc> = None;
                let mut j = 0;
                while j < na {
                    if av[j] == got { member = true; }
                    if av[j].0 == rq[i0] { exact = Some(av[j]); }
                    j += 1;
                }
                assert!(member);
                // ... that matches the earliest matched language: never passed over for a later-listed one
                assert!(matches_spec(&got.0, &rq[i0]));
                // and for that language an exact match beats a less specific one
                if let Some(e) = exact { assert!(got == e); }
            }
        }
    }
}
