// Harness crate for property C12 (std only, no icu).
//   src/extracted.rs is regenerated from /repo on every run by tools/c12_extract.py: the seven negotiation
//   functions of leptos_i18n/src/langid.rs, verbatim.
// Everything in *this* file is shim or harness.  The shims are assumptions (listed in evidence):
//   icu_locid's Language / Script / Region / Variant are small codes here (equality and `is_empty` are all the
//   negotiation code asks of them), a language identifier carries at most one variant, and `trait Locale` is
//   reduced to the bounds filter_matches / find_match use (AsRef<LanguageIdentifier> + Copy + Default).
#![allow(dead_code, unused)]
use std::ops::Deref;

// ---------------- shims (assumptions) ----------------
/// 0 is `und` (the empty language)
#[derive(Clone, Copy, PartialEq, Eq, Debug)]
pub struct Language(pub u8);
impl Language {
    pub fn is_empty(&self) -> bool { self.0 == 0 }
}
#[derive(Clone, Copy, PartialEq, Eq, Debug)]
pub struct Script(pub u8);
#[derive(Clone, Copy, PartialEq, Eq, Debug)]
pub struct Region(pub u8);
#[derive(Clone, Copy, PartialEq, Eq, Debug)]
pub struct Variant(pub u8);
/// `icu_locid::subtags::Variants` derefs to a slice; at most one variant here
#[derive(Clone, Copy, Debug)]
pub struct Variants { items: [Variant; 1], len: u8 }
impl Variants {
    pub fn new(v: Option<Variant>) -> Self {
        match v { Some(v) => Variants { items: [v], len: 1 }, None => Variants { items: [Variant(0)], len: 0 } }
    }
}
impl Deref for Variants {
    type Target = [Variant];
    fn deref(&self) -> &[Variant] { &self.items[..self.len as usize] }
}
impl PartialEq for Variants {
    fn eq(&self, o: &Self) -> bool { self.len == o.len && (self.len == 0 || self.items[0] == o.items[0]) }
}
impl Eq for Variants {}
#[derive(Clone, Copy, PartialEq, Eq, Debug)]
pub struct LanguageIdentifier {
    pub language: Language,
    pub script: Option<Script>,
    pub region: Option<Region>,
    pub variants: Variants,
}
impl AsRef<LanguageIdentifier> for LanguageIdentifier {
    fn as_ref(&self) -> &LanguageIdentifier { self }
}
/// `trait Locale` reduced to what the negotiation code uses
pub trait Locale: 'static + AsRef<LanguageIdentifier> + Copy + Default {}

/// the extracted functions, compiled against the shims above and the `Vec` model below (which shadows std's
/// `Vec` / `vec!` inside this module only)
pub mod negotiation {
    use super::*;
    /// T1: `std::vec::Vec` as the negotiation code uses it, array-backed (capacity 4), with the documented semantics of
    /// the operations used: `push` appends, `retain` keeps the elements the predicate accepts, in order, calling
    /// it once per element front to back, `sort_by` is a stable sort (insertion sort here), `first` is element 0, `v[from..]` is the tail of the live
    /// elements (type `Tail`, same `sort_by`).
    /// Why: std's `sort_by` on a vector whose length is symbolic does not terminate under CBMC (> 5 min for two `u8`),
    /// and Kani refuses to stub slice methods.
    #[derive(Clone, Copy, Debug)]
    pub struct Vec<T: Copy + Default> { items: [T; VEC_CAP], len: usize, from: usize }
    pub const VEC_CAP: usize = 4;
    impl<T: Copy + Default> Vec<T> {
        pub fn new() -> Self { Vec { items: [T::default(); VEC_CAP], len: 0, from: 0 } }
        pub fn from_slice(s: &[T]) -> Self {
            let mut v = Self::new();
            let mut i = 0;
            while i < s.len() { v.push(s[i]); i += 1; }
            v
        }
        pub fn len(&self) -> usize { self.len }
        pub fn get(&self, i: usize) -> T { assert!(i < self.len); self.items[i] }
        pub fn push(&mut self, x: T) {
            assert!(self.len < VEC_CAP, "Vec model: capacity");
            self.items[self.len] = x;
            self.len += 1;
        }
        pub fn retain<F: FnMut(&T) -> bool>(&mut self, mut f: F) {
            let (mut r, mut w) = (0, 0);
            while r < self.len {
                let x = self.items[r];
                if f(&x) { self.items[w] = x; w += 1; }
                r += 1;
            }
            self.len = w;
        }
        pub fn sort_by<F: FnMut(&T, &T) -> std::cmp::Ordering>(&mut self, compare: F) {
            let from = self.from;
            self.from = 0;
            self.sort_from(from, compare)
        }
        fn sort_from<F: FnMut(&T, &T) -> std::cmp::Ordering>(&mut self, from: usize, mut compare: F) {
            let mut i = from + 1;
            while i < self.len {
                let mut j = i;
                while j > from && compare(&self.items[j - 1], &self.items[j]) == std::cmp::Ordering::Greater {
                    self.items.swap(j - 1, j);
                    j -= 1;
                }
                i += 1;
            }
        }
        pub fn first(&self) -> Option<&T> { if self.len == 0 { None } else { Some(&self.items[0]) } }
        pub fn last(&self) -> Option<&T> { if self.len == 0 { None } else { Some(&self.items[self.len - 1]) } }
    }
    /// `v[from..]` of the model, for the one use the code makes of it (`v[from..].sort_by(..)`; tools/c12_extract.py
    /// refuses any other range indexing): the vector itself with a window start recorded, which the next `sort_by`
    /// honours and clears.  No unsafe code: Kani mis-modelled a `repr(transparent)` view type (spurious failures
    /// that do not replay).
    impl<T: Copy + Default> std::ops::Index<std::ops::RangeFrom<usize>> for Vec<T> {
        type Output = Vec<T>;
        fn index(&self, _r: std::ops::RangeFrom<usize>) -> &Vec<T> { unimplemented!("Vec model: only `v[from..].sort_by(..)` is modelled") }
    }
    impl<T: Copy + Default> std::ops::IndexMut<std::ops::RangeFrom<usize>> for Vec<T> {
        fn index_mut(&mut self, r: std::ops::RangeFrom<usize>) -> &mut Vec<T> {
            assert!(r.start <= self.len, "range start index out of range");
            self.from = r.start;
            self
        }
    }
    macro_rules! vec { () => { Vec::new() }; }

    include!("extracted.rs");

    /// `lang_id_matches` is private in langid.rs: a plain forwarder so that a harness can call it
    pub fn call_lang_id_matches(lhs: &LanguageIdentifier, rhs: &LanguageIdentifier, self_as_range: bool, other_as_range: bool) -> bool {
        lang_id_matches(lhs, rhs, self_as_range, other_as_range)
    }
}
use negotiation::{call_lang_id_matches, filter_matches, find_match};

// ---------------- harness types ----------------
/// a supported locale: `as_ref` gives its language identifier (the generated enum returns a constant per variant)
#[derive(Clone, Copy, PartialEq, Eq, Debug)]
pub struct Loc(pub LanguageIdentifier);
impl AsRef<LanguageIdentifier> for Loc {
    fn as_ref(&self) -> &LanguageIdentifier { &self.0 }
}
/// the default locale: its language is a code outside the symbolic universe, so "fell back to the default" is
/// observable
pub const DEFAULT: Loc = Loc(LanguageIdentifier { language: Language(200), script: None, region: None, variants: Variants { items: [Variant(0)], len: 0 } });
impl Default for Loc {
    fn default() -> Self { DEFAULT }
}
impl Locale for Loc {}

/// C12, written from the property text: a supported locale matches a requested language when it is that
/// language exactly, or a less specific form of it (`fr` for `fr-FR`): every subtag it carries is the request's
pub fn matches_spec(a: &LanguageIdentifier, req: &LanguageIdentifier) -> bool {
    a.language == req.language
        && (a.script.is_none() || a.script == req.script)
        && (a.region.is_none() || a.region == req.region)
        && (a.variants.len == 0 || a.variants == req.variants)
}

#[cfg(kani)]
mod proofs {
    use super::*;

    fn any_opt(n: u8) -> Option<u8> { if kani::any() { let x: u8 = kani::any(); kani::assume(x >= 1 && x <= n); Some(x) } else { None } }
    /// language in 0..=2 (0 = und), script / region / variant absent or one of two codes
    fn any_langid(allow_und: bool) -> LanguageIdentifier {
        let l: u8 = kani::any();
        kani::assume(l <= 2 && (allow_und || l >= 1));
        LanguageIdentifier { language: Language(l), script: any_opt(2).map(Script), region: any_opt(2).map(Region),
                             variants: Variants::new(any_opt(2).map(Variant)) }
    }

    /// the matching predicate of the code agrees with the property's notion, for every pair in the universe
    /// (loop-free but for the one-element variant slices: complete over the shim domain)
    #[kani::proof]
    #[kani::unwind(3)]
    fn matching_predicate() {
        let a = any_langid(false);
        let r = any_langid(true);
        assert_eq!(call_lang_id_matches(&a, &r, true, false), matches_spec(&a, &r));
        assert_eq!(call_lang_id_matches(&a, &r, false, false), a == r);
    }

    /// exactly NA supported locales (pairwise distinct, as get_all lists them) and exactly NR requested languages;
    /// the slice lengths are concrete so that every loop has a concrete bound
    fn setup<const NA: usize, const NR: usize>() -> ([Loc; NA], [LanguageIdentifier; NR]) {
        let av: [Loc; NA] = core::array::from_fn(|_| Loc(any_langid(false)));
        let mut i = 0;
        while i < NA {
            let mut j = 0;
            while j < i { kani::assume(av[i].as_ref() != av[j].as_ref()); j += 1; }
            i += 1;
        }
        let rq: [LanguageIdentifier; NR] = core::array::from_fn(|_| any_langid(true));
        (av, rq)
    }

    fn satisfiable<const NA: usize, const NR: usize>() {
        let (av, rq) = setup::<NA, NR>();
        kani::cover!(matches_spec(av[NA - 1].as_ref(), &rq[NR - 1]) && (NA == 1 && NR == 1 || !matches_spec(av[0].as_ref(), &rq[0])));
    }

    /// C12 for NA supported locales and NR requested languages.
    /// Every array index below is concrete (the loops have concrete bounds): CBMC 6.11 mis-read a field of
    /// `rq[i0]` for a *symbolic* `i0` (nested array inside the indexed struct), which gave failures that did
    /// not replay.
    fn preference_order<const NA: usize, const NR: usize>() {
        let (av, rq) = setup::<NA, NR>();
        let got: Loc = find_match(&rq, &av);
        let mut decided = false;
        let mut i = 0;
        while i < NR {
            if !decided {
                // does some supported locale match the i-th requested language ?
                let mut any = false;
                let mut member = false;
                let mut exact: Option<Loc> = None;
                let mut j = 0;
                while j < NA {
                    if matches_spec(av[j].as_ref(), &rq[i]) { any = true; }
                    if av[j] == got { member = true; }
                    if *av[j].as_ref() == rq[i] { exact = Some(av[j]); }
                    j += 1;
                }
                if any {
                    // this is the first requested language with a match: the result is decided here
                    decided = true;
                    // always a supported locale ...
                    assert!(member);
                    // ... that matches this language: never passed over for one matching only a later-listed language
                    assert!(matches_spec(got.as_ref(), &rq[i]));
                    // and an exact match beats a less specific one
                    if let Some(e) = exact { assert!(got == e); }
                }
            }
            i += 1;
        }
        // no match at all: the default locale
        if !decided { assert!(got == DEFAULT); }
    }

    #[kani::proof]
    #[kani::unwind(5)]
    fn model_tail_sort() {
        let a: u8 = kani::any(); let b: u8 = kani::any(); let c: u8 = kani::any();
        let mut v: negotiation::Vec<u8> = negotiation::Vec::new();
        v.push(a); v.push(b); v.push(c);
        let k: usize = kani::any();
        kani::assume(k <= 3);
        v[k..].sort_by(|x, y| x.cmp(y).reverse());
        if k >= 1 { assert!(v.get(0) == a); }
        if k >= 2 { assert!(v.get(1) == b); }
        if k == 1 { assert!(v.get(1) >= v.get(2)); }
    }

    #[kani::proof]
    #[kani::unwind(5)]
    fn concrete_d5() {
        let l1 = LanguageIdentifier { language: Language(1), script: None, region: None, variants: Variants::new(None) };
        let l1v = LanguageIdentifier { language: Language(1), script: None, region: None, variants: Variants::new(Some(Variant(1))) };
        let av = [Loc(l1), Loc(l1v)];
        let rq = [l1, l1v];
        let got: Loc = find_match(&rq, &av);
        assert!(got == av[0]);
        let all = filter_matches(&rq, &av);
        assert!(all.len() == 2);
        assert!(all.get(0) == av[0]);
        assert!(all.get(1) == av[1]);
    }

    fn li(l: u8, s: Option<u8>, r: Option<u8>, v: Option<u8>) -> LanguageIdentifier {
        LanguageIdentifier { language: Language(l), script: s.map(Script), region: r.map(Region), variants: Variants::new(v.map(Variant)) }
    }





    mod po_1_1 {
        use super::*;
        #[kani::proof] #[kani::unwind(4)] fn precondition_satisfiable() { satisfiable::<1, 1>() }
        #[kani::proof] #[kani::unwind(4)] fn check() { preference_order::<1, 1>() }
    }
    mod po_2_1 {
        use super::*;
        #[kani::proof] #[kani::unwind(5)] fn precondition_satisfiable() { satisfiable::<2, 1>() }
        #[kani::proof] #[kani::unwind(5)] fn check() { preference_order::<2, 1>() }
    }
    mod po_1_2 {
        use super::*;
        #[kani::proof] #[kani::unwind(5)] fn precondition_satisfiable() { satisfiable::<1, 2>() }
        #[kani::proof] #[kani::unwind(5)] fn check() { preference_order::<1, 2>() }
    }
    mod po_2_2 {
        use super::*;
        #[kani::proof] #[kani::unwind(5)] fn precondition_satisfiable() { satisfiable::<2, 2>() }
        #[kani::proof] #[kani::unwind(5)] fn check() { preference_order::<2, 2>() }
    }
    mod po_3_1 {
        use super::*;
        #[kani::proof] #[kani::unwind(6)] fn precondition_satisfiable() { satisfiable::<3, 1>() }
        #[kani::proof] #[kani::unwind(6)] fn check() { preference_order::<3, 1>() }
    }
    mod po_3_2 {
        use super::*;
        #[kani::proof] #[kani::unwind(6)] fn precondition_satisfiable() { satisfiable::<3, 2>() }
        #[kani::proof] #[kani::unwind(6)] fn check() { preference_order::<3, 2>() }
    }
    // three requested languages (the property's own bound): thorough tier only
    mod po_2_3 {
        use super::*;
        #[kani::proof] #[kani::unwind(6)] fn precondition_satisfiable() { satisfiable::<2, 3>() }
        #[kani::proof] #[kani::unwind(6)] fn check() { preference_order::<2, 3>() }
    }
    mod po_3_3 {
        use super::*;
        #[kani::proof] #[kani::unwind(6)] fn precondition_satisfiable() { satisfiable::<3, 3>() }
        #[kani::proof] #[kani::unwind(6)] fn check() { preference_order::<3, 3>() }
    }
}

#[cfg(test)]
mod model_tests {
    use super::negotiation::Vec;
    #[test]
    fn vec_model_behaves_like_std() {
        let data = [5u8, 1, 4, 1, 3];
        for k in 0..=4usize {
            let mut m: Vec<u8> = Vec::from_slice(&data[..4]);
            let mut v: std::vec::Vec<u8> = data[..4].to_vec();
            m[k..].sort_by(|a, b| a.cmp(b).reverse());
            v[k..].sort_by(|a, b| a.cmp(b).reverse());
            for i in 0..4 { assert_eq!(m.get(i), v[i]); }
            m.retain(|x| *x != 1);
            v.retain(|x| *x != 1);
            assert_eq!(m.len(), v.len());
            for i in 0..v.len() { assert_eq!(m.get(i), v[i]); }
            assert_eq!(m.first(), v.first());
        }
    }
}

#[cfg(test)]
/// native cross-check (not part of the verdict): exhaustive run of the same oracle over the same universe for
/// 2 supported locales and 2 requests; `cargo test` in this crate
mod native_cross_check {
    use super::*;
    fn universe(allow_und: bool) -> std::vec::Vec<LanguageIdentifier> {
        let mut out = std::vec::Vec::new();
        for l in (if allow_und { 0 } else { 1 })..=2u8 {
            for s in 0..=2u8 { for r in 0..=2u8 { for v in 0..=2u8 {
                out.push(LanguageIdentifier { language: Language(l), script: if s == 0 { None } else { Some(Script(s)) },
                    region: if r == 0 { None } else { Some(Region(r)) }, variants: Variants::new(if v == 0 { None } else { Some(Variant(v)) }) });
            }}}
        }
        out
    }
    #[test]
    fn exhaustive_2_2() {
        let ua = universe(false);
        let ur = universe(true);
        let mut counts = [0usize; 4];
        for a0 in &ua { for a1 in &ua { if a0 == a1 { continue; } for r0 in &ur { for r1 in &ur {
            let av = [Loc(*a0), Loc(*a1)];
            let rq = [*r0, *r1];
            let got: Loc = find_match(&rq, &av);
            let mut first = None;
            for i in 0..2 { for j in 0..2 { if first.is_none() && matches_spec(av[j].as_ref(), &rq[i]) { first = Some(i); } } }
            let class = match first {
                None => if got == DEFAULT { 9 } else { 0 },
                Some(i0) => if !av.contains(&got) { 1 } else if !matches_spec(got.as_ref(), &rq[i0]) { 2 } else if !av.iter().all(|a| *a.as_ref() != rq[i0] || got == *a) { 3 } else { 9 },
            };
            if class < 4 { if counts[class] == 0 { println!("FAIL class {} av={:?} rq={:?} got={:?}", class, av, rq, got); } counts[class] += 1; }
        }}}}
        println!("COUNTS {:?}", counts);
        assert_eq!(counts, [0; 4]);
    }
}
