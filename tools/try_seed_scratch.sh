#!/bin/sh
# try_seed_scratch.sh <patch.diff> <prop>... : like try_seed.sh but on a scratch copy of /repo's working tree
# (used while a background run is reading /repo itself)
patch=$1; shift
S=/var/tmp/seedtry
rm -rf $S; mkdir -p $S
rsync -a --exclude target --exclude .git /repo/ $S/
patch -p1 -s -d $S -i "$patch" || { echo "patch does not apply"; exit 2; }
for p in "$@"; do
  echo "=== $p"
  /verif/bin/check $p --tier quick --no-evidence --repo $S 2>&1 | cut -c1-400 | head -${SEED_LINES:-12}
done
rm -rf $S
