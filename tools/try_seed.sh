#!/bin/sh
# try_seed.sh <patch.diff> <prop> [<prop>...] : apply a seeded change to /repo, run the quick checks, undo it
patch=$1; shift
cd /repo || exit 2
[ -z "$(git status --porcelain)" ] || { echo "/repo not clean"; exit 2; }
git apply "$patch" || { echo "patch does not apply"; exit 2; }
trap 'git -C /repo checkout -- . ; git -C /repo clean -fdq' EXIT INT TERM
for p in "$@"; do
  echo "=== $p"
  /verif/bin/check $p --tier quick --no-evidence 2>&1 | cut -c1-400 | head -${SEED_LINES:-12}
  echo "rc=$?"
done
