"""Run one Kani unit: a group of harnesses compiled inside a crate of /repo (cfg(kani) hook) or in a
stand-alone harness crate under /verif/kani-crates whose sources are extracted from /repo.

Harnesses are run in several `cargo kani` processes (sequential inside each process): Kani's own
`-j` mode dead-locked here (measured), and one process per harness pays cargo's start-up each time.

Result dict has the same shape as verus_unit.run_unit; each harness is a "function" with
obligations = number of CBMC checks in `** k of N failed`.
"""
import concurrent.futures as cf
import json
import os
import re
import shutil
import subprocess
import time

CARGO = shutil.which("cargo") or "cargo"


def _run(cmd, cwd, timeout, env=None):
    e = dict(os.environ)
    e["CARGO_NET_OFFLINE"] = "true"
    e.pop("RUSTUP_TOOLCHAIN", None)
    if env:
        e.update(env)
    t0 = time.time()
    try:
        p = subprocess.Popen(cmd, cwd=cwd, stdout=subprocess.PIPE, stderr=subprocess.STDOUT, text=True,
                             env=e, start_new_session=True)
        try:
            out, _ = p.communicate(timeout=timeout)
            rc = p.returncode
        except subprocess.TimeoutExpired:
            import signal
            try:
                os.killpg(p.pid, signal.SIGKILL)
            except Exception:
                pass
            out, _ = p.communicate()
            rc = 124
    except OSError as ex:
        return 127, str(ex), 0.0
    return rc, out, time.time() - t0


_rx_check = re.compile(r"Checking harness (\S+?)\.\.\.")
_rx_sum = re.compile(r"\*\* (\d+) of (\d+) failed")
_rx_cover = re.compile(r"\*\* (\d+) of (\d+) cover properties satisfied")
_rx_failed_check = re.compile(r"^Failed Checks: (.*)$")


def parse_output(out):
    """-> {harness: {status, checks, failed, covers, covers_sat, failed_checks, time}}"""
    res = {}
    cur = None
    for line in out.split("\n"):
        line = re.sub(r"^Thread \d+: ", "", line)
        m = _rx_check.search(line)
        if m:
            cur = m.group(1)
            res[cur] = {"status": None, "checks": 0, "failed": 0, "covers": 0, "covers_sat": 0,
                        "failed_checks": [], "time": None}
            continue
        if cur is None:
            continue
        m = _rx_sum.search(line)
        if m:
            res[cur]["failed"] = int(m.group(1))
            res[cur]["checks"] = int(m.group(2))
        m = _rx_cover.search(line)
        if m:
            res[cur]["covers_sat"] = int(m.group(1))
            res[cur]["covers"] = int(m.group(2))
        m = _rx_failed_check.match(line.strip())
        if m:
            res[cur]["failed_checks"].append(m.group(1))
        if "VERIFICATION:- SUCCESSFUL" in line:
            res[cur]["status"] = "ok"
        elif "VERIFICATION:- FAILED" in line:
            res[cur]["status"] = "failed"
        m = re.search(r"Verification Time: ([0-9.]+)s", line)
        if m:
            res[cur]["time"] = float(m.group(1))
    return res


def _target_dir(root, k, cwd):
    """one Kani target directory per (unit family, source tree): artifacts of /repo must never be
    reused for a scratch copy (measured: a stale goto binary made a mutant pass)"""
    import hashlib
    tag = hashlib.sha1(os.path.realpath(cwd).encode()).hexdigest()[:8]
    return os.path.join(root, ".cache", "kani-target-%s-%s" % (k.get("target_tag", "repo"), tag))


def _cargo_kani_cmd(k, target_dir, harnesses, extra=None):
    cmd = [CARGO, "kani"]
    if k.get("package"):
        cmd += ["-p", k["package"]]
    cmd += ["--target-dir", target_dir, "--output-format", "terse"]
    cmd += k.get("flags", [])
    if k.get("features"):
        cmd += ["--features", ",".join(k["features"])]
    if extra:
        cmd += extra
    for h in harnesses:
        cmd += ["--harness", h]
    cmd += ["--exact"]
    return cmd


def run_unit(k, repo, root, build_root, tier):
    name = k["name"]
    res = {"unit": name, "backend": "kani", "status": "undecided", "functions": [], "failures": [],
           "undecided": [], "obligations": 0, "discharged": 0, "trusted": [], "extraction": [],
           "smt_time_ms": 0, "wall_s": 0.0, "checker_cmd": "", "twin": None,
           "bounded": k.get("bounded"), "source_hint": k.get("source_hint")}
    t0 = time.time()
    harnesses = list(k["quick"]) if tier == "quick" else list(k.get("thorough") or k["quick"])
    prefix = k.get("module", "")
    full = [(prefix + "::" + h) if prefix else h for h in harnesses]
    cwd = k["cwd"](repo, root) if callable(k.get("cwd")) else (k.get("cwd") or repo)
    # stand-alone crate: regenerate its extracted sources first
    if k.get("prepare"):
        try:
            res["extraction"] = k["prepare"](repo, root)
        except Exception as e:  # VxError and friends
            res["undecided"].append("extraction: %s" % e)
            res["wall_s"] = time.time() - t0
            return res
    target_dir = _target_dir(root, k, cwd)
    os.makedirs(target_dir, exist_ok=True)
    # one unit at a time per target directory (two properties share harness groups; concurrent checks must
    # not run the same harness into the same goto files)
    import fcntl
    lock_fh = open(target_dir + ".lock", "w")
    fcntl.flock(lock_fh, fcntl.LOCK_EX)
    try:
        return _run_unit_locked(k, repo, root, build_root, tier, res, t0, harnesses, prefix, full, cwd, target_dir)
    finally:
        fcntl.flock(lock_fh, fcntl.LOCK_UN)
        lock_fh.close()


def _run_unit_locked(k, repo, root, build_root, tier, res, t0, harnesses, prefix, full, cwd, target_dir):
    name = k["name"]
    # trusted-base scan of the harness file(s)
    for hf in k.get("harness_files", []):
        try:
            for i, line in enumerate(open(os.path.join(root, hf), encoding="utf-8"), 1):
                s = line.strip()
                if s.startswith("//"):
                    continue
                if re.search(r"kani::assume|kani::stub|stub_verified|#\[kani::unwind", s):
                    res["trusted"].append("%s:%d: %s" % (hf, i, s[:160]))
        except OSError:
            pass
    # 1. build once (so that the parallel runs below find a fresh build and do not serialise on it)
    bcmd = _cargo_kani_cmd(k, target_dir, full[:1], extra=["--only-codegen"])
    rc, out, w = _run(bcmd, cwd, k.get("build_timeout", 900))
    if rc != 0:
        res["undecided"].append("kani build failed (rc=%s): %s" % (rc, out[-1500:]))
        res["wall_s"] = time.time() - t0
        return res
    # 2. run in chunks
    nproc = k.get("procs", 8)
    chunks = [full[i::nproc] for i in range(nproc) if full[i::nproc]]
    per_timeout = k.get("timeout", 300)
    allres = {}
    cmds = []

    def work(chunk):
        cmd = _cargo_kani_cmd(k, target_dir, chunk)
        rc, out, w = _run(cmd, cwd, per_timeout * max(1, len(chunk)) if k.get("timeout_per_harness") else per_timeout)
        return chunk, cmd, rc, out, w

    with cf.ThreadPoolExecutor(max_workers=nproc) as pool:
        for chunk, cmd, rc, out, w in pool.map(work, chunks):
            cmds.append(" ".join(cmd[:12]) + " ...")
            pr = parse_output(out)
            for h in chunk:
                r = pr.get(h)
                if r is None or r["status"] is None:
                    allres[h] = {"status": "timeout" if rc == 124 else "noresult", "checks": 0, "failed": 0,
                                 "covers": 0, "covers_sat": 0, "failed_checks": [], "time": None,
                                 "tail": out[-600:]}
                else:
                    allres[h] = r
    res["checker_cmd"] = " ".join(_cargo_kani_cmd(k, target_dir, ["<harness>"]))
    for h in full:
        r = allres[h]
        short = h[len(prefix) + 2:] if prefix and h.startswith(prefix + "::") else h
        ok = r["status"] == "ok"
        res["functions"].append({"name": short, "mode": "kani", "success": ok, "obligations": r["checks"],
                                 "time_us": int((r["time"] or 0) * 1e6),
                                 "sample_obligations": ["%d CBMC checks (assertions, overflow, bounds, "
                                                        "pointer validity) for harness %s" % (r["checks"], short)]})
        res["smt_time_ms"] += int((r["time"] or 0) * 1000)
        if r["status"] == "failed" and r["failed_checks"] and all("unwinding assertion" in c for c in r["failed_checks"]):
            res["undecided"].append("harness %s: unwinding bound too small (%s)" % (short, r["failed_checks"][0]))
        elif r["status"] == "failed":
            rec = {"function": short, "kind": "kani-check", "message": "; ".join(r["failed_checks"])[:600]
                   or "verification failed", "gen_line": None, "text": h, "source": k.get("source_hint"),
                   "labels": [], "id": "%s/%s/kani-check" % (name, short)}
            # concrete playback re-runs the harness: do it for the first failures only
            cex = counterexample(k, target_dir, cwd, h) if (len(res["failures"]) < 2 and not k.get("no_cex")) else None
            if cex:
                rec["counterexample"] = cex
            res["failures"].append(rec)
        elif r["status"] in ("timeout", "noresult"):
            res["undecided"].append("harness %s: %s %s" % (short, r["status"], r.get("tail", "")[-300:]))
        elif r["covers"] != r["covers_sat"]:
            res["undecided"].append("vacuity: harness %s: only %d of %d cover properties satisfied "
                                    "(precondition unsatisfiable?)" % (short, r["covers_sat"], r["covers"]))
    res["obligations"] = sum(f["obligations"] for f in res["functions"])
    res["discharged"] = sum(f["obligations"] for f in res["functions"] if f["success"])
    res["wall_s"] = time.time() - t0
    if res["undecided"]:
        res["status"] = "undecided"
    elif res["failures"]:
        res["status"] = "refuted"
    elif res["obligations"] > 0:
        res["status"] = "ok"
    else:
        res["undecided"].append("vacuity: zero checks")
    return res


def counterexample(k, target_dir, cwd, harness):
    """re-run one failing harness with concrete playback and return the generated test text"""
    cmd = _cargo_kani_cmd(k, target_dir, [harness],
                          extra=["-Z", "concrete-playback", "--concrete-playback=print"])
    cmd = [c for c in cmd if c != "terse"]
    # --output-format terse was removed together with its flag
    cmd = [c for c in cmd if c != "--output-format"]
    rc, out, w = _run(cmd, cwd, k.get("timeout", 300))
    m = re.search(r"(#\[test\]\s*fn kani_concrete_playback_[\s\S]*?\n}\n)", out)
    if not m:
        m = re.search(r"```\s*\n(#\[test\][\s\S]*?)```", out)
    if m:
        return {"playback_test": m.group(1), "harness": harness, "cmd": " ".join(cmd)}
    return None


def replay(rep, repo, root):
    """Native replay: Kani writes the concrete-playback unit test next to the harness
    (`--concrete-playback=inplace`, on the harness file under /verif/kani, restored afterwards) and
    `cargo kani playback` runs it as an ordinary `#[test]`: the real function is executed natively
    on the counterexample and the harness assertion fails there."""
    import registry
    cex = rep.get("counterexample") or {"harness": (rep.get("failed_obligation") or {}).get("text")}
    print(cex.get("playback_test", ""))
    k = None
    for prop, spec in registry.PROPS.items():
        for kk in spec.get("kani", []):
            if kk["name"] == rep["unit"]:
                k = kk
    if k is None or not cex.get("harness"):
        print("no kani unit / harness recorded in the replay file")
        return 2
    cwd = k["cwd"](repo, root) if callable(k.get("cwd")) else (k.get("cwd") or repo)
    if k.get("prepare"):
        k["prepare"](repo, root)
    target_dir = _target_dir(root, k, cwd)
    files = [os.path.join(root, f) for f in k.get("harness_files", [])]
    backups = {f: open(f, encoding="utf-8").read() for f in files}
    try:
        cmd = _cargo_kani_cmd(k, target_dir, [cex["harness"]],
                              extra=["-Z", "concrete-playback", "--concrete-playback=inplace"])
        cmd = [c for c in cmd if c not in ("terse", "--output-format")]
        rc, out, w = _run(cmd, cwd, k.get("timeout", 300))
        m = re.search(r"- (kani_concrete_playback_\w+)", out)
        if not m:
            print("kani produced no playback test (the harness no longer fails?)")
            print(out[-600:])
            return 0 if "VERIFICATION:- SUCCESSFUL" in out else 2
        test = m.group(1)
        cmd = [CARGO, "kani", "playback", "-Z", "concrete-playback"]
        if k.get("package"):
            cmd += ["-p", k["package"]]
        if k.get("features"):
            cmd += ["--features", ",".join(k["features"])]
        # the test lands next to the harness (inside a macro body it is instantiated once per type):
        # run exactly the instance that lives in the failing harness' module
        modpath = cex["harness"].rsplit("::", 1)[0]
        cmd += ["--", modpath + "::" + test, "--exact"]
        rc, out, w = _run(cmd, cwd, 1800, env={"CARGO_TARGET_DIR": target_dir + "-playback"})
        tail = [l for l in out.split("\n") if re.search(r"^test |panicked|assertion|test result", l)]
        print("\n".join(tail[-12:]))
        if re.search(r"test result: FAILED|\.\.\. FAILED", out):
            print("REPRODUCED natively: %s fails on the real code with the counterexample" % test)
            return 1
        if re.search(r"test result: ok", out):
            print("not reproduced: the playback test passes natively")
            return 0
        print(out[-800:])
        return 2
    finally:
        for f, txt in backups.items():
            open(f, "w", encoding="utf-8").write(txt)
