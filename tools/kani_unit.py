def run_unit(k, repo, root, build_root, tier):
    raise NotImplementedError
def replay(rep, repo, root):
    raise NotImplementedError
