"""warm the Kani target directories (build only, no verification)"""
import os, sys
ROOT = os.path.dirname(os.path.dirname(os.path.abspath(__file__)))
sys.path.insert(0, os.path.join(ROOT, "tools"))
import registry, kani_unit
seen = set()
for prop, spec in sorted(registry.PROPS.items()):
    for k in spec.get("kani", []):
        if k["name"] in seen:
            continue
        seen.add(k["name"])
        repo = os.environ.get("VERIF_REPO", "/repo")
        try:
            if k.get("prepare"):
                k["prepare"](repo, ROOT)
            cwd = k["cwd"](repo, ROOT) if callable(k.get("cwd")) else (k.get("cwd") or repo)
            target = kani_unit._target_dir(ROOT, k, cwd)
            prefix = k.get("module", "")
            h = (prefix + "::" if prefix else "") + k["quick"][0]
            cmd = kani_unit._cargo_kani_cmd(k, target, [h], extra=["--only-codegen"])
            rc, out, w = kani_unit._run(cmd, cwd, 1500)
            print("warm %s: rc=%s %.0fs" % (k["name"], rc, w))
        except Exception as e:
            print("warm %s: %r" % (k["name"], e))
