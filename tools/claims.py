"""Per-property claims (what is proved, what is assumed): single source for MANIFEST.json and the
assumptions list of every evidence file."""

CLAIMS = {
    "C03": {
        "technique": "contract-based deductive verification (Verus) of the extracted real functions",
        "text": "Unbounded proof (Verus/Z3) that DefaultedLocales::default_of_inner / default_of return the first "
                "locale on the inheritance chain that defines the key and the default locale when the chain loops, "
                "for every inherits map (cycles, self reference, forks), that the walk terminates, that compute() "
                "groups every defaulted locale under exactly that resolved locale, that check_locales_inner hands "
                "Locale::merge the locale named in `inherits` (explicitly) or else the default locale (implicitly), and "
                "that ParsedValue::merge records exactly `this locale -> that fallback` for a key the locale does not define. The "
                "function bodies are extracted mechanically from /repo on every run.",
        "note": "Assumed: vstd's BTreeMap/HashSet/iterator specs; lawfulness of Key's hand-written Eq/Ord/Hash "
                "(obeys_cmp, obeys_key_model for &Key, borrowed-key lookup = membership); Key identity abstracted to an "
                "id; A1: the std chain BTreeMap::entry(k).or_default().insert(v) adds v under k and nothing else. "
                "the contracts assumed for Locale::merge / make_builder_keys (unverified traversals). Not covered: how "
                "`mapping` is filled inside Locale::merge / ParsedValue::merge and how the generator turns compute() "
                "into match arms.",
        "design_ref": "DESIGN.md section 3, C03",
    },
    "C04": {
        "technique": "contract-based deductive verification: Kani function contracts / full-domain loop-free harnesses "
                     "on the real code + Verus on the extracted selection loop",
        "text": "Complete (not bounded) proofs: (Kani) the kani::ensures contract of every RangeNumber::range_end_bound, "
                "the exclusive-end rewrite `s..e` == Bounds{start: s, end: range_end_bound(e)} under do_match, and "
                "Range::do_match == Rust's RangeBounds::contains for every flat shape of every numeric type and every "
                "operand value; (Verus, unbounded in the number of branches) find_value renders the first declared "
                "branch that contains the count, an error when none does, populate_with_new_key keeps branches, "
                "their order and their specifications, and populate_with_count_arg selects through find_value on the same "
                "count converted without loss to the range's type (or rejects it). Bounded extra: the `Multiple` arm of "
                "do_match for 2-3 children.",
        "note": "Assumed: the `Multiple` arm (`a | b` lists) of do_match == exists over its children beyond the bounded "
                "harnesses; i64::try_from(u64) (missing in vstd); the f64->f32 cast is unspecified in Verus; floats under the precondition 'no NaN operand'; Range::new (text to Range), the serde "
                "visitors, check_de_inner and the macro generator are outside both verifiers. quick runs 3 of the 10 "
                "numeric types for do_match, thorough all 10.",
        "design_ref": "DESIGN.md section 3, C04",
    },
    "C08": {
        "technique": "contract-based deductive verification (Verus) of the extracted real functions",
        "text": "Unbounded proofs: (1) ParsedValue::get_keys_inner / get_keys: the accumulator requires afterwards exactly "
                "what it required before (other locales, other parts) plus every interpolated variable, every component and "
                "the count variable of every range / plural occurring in the value at any nesting depth -- nothing missing "
                "and nothing spurious (both directions of the union); (2) InterpolationKeys::push_var / push_comp / "
                "push_count and InterpolOrLit::get_interpol_keys_mut: exact effect on the accumulator, and the count-typing "
                "rule (accepted iff untyped or same type; range-vs-plural mix and range type mismatch reported with the "
                "right payload).",
        "note": "One rewrite I3 (`for v in m.values()` -> `for (_, v) in m.iter()`: vstd specifies values() in one direction "
                "only). Assumed: A3 `BTreeMap::entry(k).or_default()`; Option::replace, mem::take, Box::from; a resolved foreign key contributes what the "
                "referenced value contributes; lawfulness of Key / PluralForm ordering. Termination of get_keys_inner is not "
                "proved (recursion through the RefCell of a foreign key). Not covered: ParsedValue::merge (where the calls per "
                "locale are made), the typed builder (rustc).",
        "design_ref": "DESIGN.md section 3 C08, 8.5",
    },
    "C09": {
        "technique": "contract-based deductive verification (Verus termination/panic-freedom obligations, Kani overflow checks) "
                     "of listed panic sites",
        "text": "Proof for the listed sites only: find_value no longer reaches unreachable!() and returns Err; "
                "EitherOfWrapper::new/wrap never index out of bounds, never underflow, terminate; default_of_inner "
                "terminates on every inherits graph; the JSON / script string writers are total; the build-script API's "
                "option walk (find_used_datakey, get_icu_keys_inner) terminates on every tree and reaches no panicking "
                "operation; range arithmetic has no overflow (Kani checks on). Bounded (Kani, not counted as proved): the scan for the `{..}` arguments "
                "of a foreign key (statements of parse_foreign_key_args lifted verbatim) neither splits out of range nor "
                "inside a character, for every UTF-8 text of up to 5 (quick) / 7 (thorough) bytes over a small alphabet "
                "with multibyte characters.",
        "note": "The property as a whole is NOT established: every &str offset computation of the parser, UnwrapAt "
                "sites justified by cross-structure invariants, stack depth, serde front ends and the build-script API "
                "are outside reach. Assumed: callers of EitherOfWrapper::new pass size >= 1; quote!/format_ident! do not "
                "panic (M1).",
        "design_ref": "DESIGN.md section 3, C09",
    },
    "C11": {
        "technique": "contract-based deductive verification (Verus) of the extracted real functions + spec-level round-trip lemma",
        "text": "Unbounded proof that StringIndexer::push_str hands out an index at which the table holds exactly the "
                "text, never moves an index, never stores a text twice (and every method of impl StringIndexer keeps "
                "that invariant); Literal::index_strings stores that index; check_locales_inner gives every locale a table "
                "matching the indices of its literals and records its length; and "
                "that the build helper's writer emits, for every Unicode text, a JSON array of string literals whose "
                "RFC 8259 decoding is the text (lemma junesc(jesc(s)) == s for all sequences of chars) and which, as a "
                "whole, parses with a positional RFC 8259 scanner as an array of exactly the table's strings "
                "(postcondition `jarray(r@) == Some(views(self.strings@))` of TranslationsFormatter::to_json).",
        "note": "Assumed: four std facts vstd leaves open (String::from view, String view injective, HashMap<String,_> "
                "lookup by &str); R2 Rc<str> -> String; the spec decoder / scanner (`junesc`, `jscan`, `jarray`, ~60 lines written from RFC 8259) equal real JSON decoding; the contract "
                "assumed for the traversals make_builder_keys / merge (`lits_ok`). Not covered: "
                "ParsedValue::index_strings traversal, string counts, index_translations::<N, I>, StringArray::cast.",
        "design_ref": "DESIGN.md section 3, C11",
    },
    "C17": {
        "technique": "contract-based deductive verification (Verus) of the extracted real function + spec-level lemmas",
        "text": "Unbounded proof that push_js_string appends exactly one string literal whose decoded value is the "
                "string, for every text, and that the emitted text contains no '<', no raw quote, no control or line "
                "terminator character (cannot close the script element or leave the literal); that "
                "RegisterCtx::to_array as a whole returns `window.__LEPTOS_I18N_TRANSLATIONS = [` + one object "
                "{\"locale\":..,\"id\":..|null,\"values\":[its strings in order]} per registered unit (each unit once, "
                "nothing else, comma separated in the map's iteration order) + `];`; and that the client side "
                "(init_translations, feature hydrate; statement range lifted by rule E3) re-emits exactly the "
                "script of the units it received.",
        "note": "Not covered: which units a render registers (generated code calling RegisterCtx::register); the "
                "web_sys / serde_wasm_bindgen glue around the lifted statements of init_translations. Assumed: "
                "Mutex::lock hands out the protected map (shim), the hash/eq of the generated Locale and unit-id types "
                "obey vstd's key model, locale / id names need no escaping (identifier charset).",
        "design_ref": "DESIGN.md section 3, C17",
    },
    "C15": {
        "technique": "contract-based deductive verification: Kani loop-free full-domain harnesses on mechanically extracted decision code",
        "text": "Complete proof, over all combinations of cookie / html-lang / accepted / initial / parent locale, of the "
                "precedence order implemented by resolve_locale, signal_maybe_once_then / signal_once_then and the first "
                "run of the sub-context memo.",
        "note": "Assumed: leptos Memo/Signal semantics (shims), leptos-use cookie codec, header parsing, find_locale (C12).",
        "design_ref": "DESIGN.md section 3, C15",
    },
    "C18": {
        "technique": "Verus proof of the generic helper (extracted, one rewrite) + bounded Kani harnesses (closed universe, argument lists up to length 2/3) on the real from_args code",
        "text": "Proved (Verus, for every argument type, option type, recogniser and list length): from_args_helper returns "
                "the value the recogniser gives for the first argument that carries the option's name and is recognised, "
                "and the default when there is no list, no such argument or only unrecognised values. Bounded (Kani): for "
                "argument lists of length <= 2 (quick) / 3 (thorough) over a closed universe of names and values, each "
                "from_args returns the first recognised value for its own argument name and the documented default "
                "otherwise; from_name_and_args dispatches to the documented formatter.",
        "note": "The Kani part is a bounded stand-in, not counted as proved; the helper proof uses rule K1 (`if c { continue; } "
                "rest` -> `if c { } else { rest }`) and assumes the PartialEq impls obey vstd's eq model. Not covered: the "
                "macro-generated recogniser closures beyond the bounded harnesses, whitespace handling "
                "(parse_formatter_args), ICU4X output, the concurrent formatter cache.",
        "design_ref": "DESIGN.md section 3, C18",
    },
}

CLAIMS["C12"] = {
    "technique": "Verus proofs of the subtag comparisons (extracted, icu_locid types as shims) + bounded Kani harnesses on the negotiation functions extracted verbatim (icu_locid types and std Vec replaced by small stand-ins)",
    "text": "Proved (Verus, every value): lang_matches, subtag_matches (for every subtag type) and into_specificity compute "
            "the property's notions of a matching language, of a subtag that matches exactly or is absent on the side "
            "treated as a range, and of specificity (number of subtags beyond the language). Bounded: for up to 3 supported locales and up to 2 (quick) / 3 (thorough) requested languages over a closed subtag universe, "
            "find_match returns the default locale when no supported locale matches any request, and otherwise a "
            "supported locale that matches the earliest-listed request that has a match at all (exactly, or as a less "
            "specific form of it), the exact match when there is one. Complete over the same universe: lang_id_matches "
            "is the property's notion of matching.",
    "note": "Bounded stand-in, not counted as proved. Assumed (shims): Language/Script/Region/Variant as one-byte "
            "codes, at most one variant per identifier, std's Vec / retain / stable sort_by replaced by an array-backed "
            "model (std's sort_by does not terminate under CBMC on a vector of symbolic length). Not covered: parsing "
            "of the header / navigator strings (convert_vec_str_to_langids_lossy, icu), from_base_locale, lists "
            "longer than the bound.",
    "design_ref": "DESIGN.md section 8.10",
}

CLAIMS["C14"] = {
    "technique": "bounded stand-ins only: Kani harnesses on get_locale_from_path extracted verbatim (trait Locale reduced to get_all / as_str) + exhaustive native enumeration over a closed universe on match_path_segments / construct_path_segments / localize_path / PathBuilder extracted verbatim (neither verifier reaches them)",
    "text": "Bounded. First sentence: for every path of up to 4 (quick) / 7 (thorough) characters "
            "after the base path, over the characters of the locale names, `/` and one other letter, with locales en, "
            "en-US, fr listed in either order and base path \"\" or /a, get_locale_from_path returns the locale whose "
            "name is the whole first path segment after the base path, and none when that segment is not a locale name "
            "(a name that is a prefix of another name or of an ordinary word is not matched). Second sentence, segment "
            "level only: for every path of up to 3 (quick) / 4 (thorough) segments and every route of up to 3 / 5 "
            "segments over every PathSegment variant (static, empty static, param, optional param, splat, unit), a path "
            "that matches a route is rewritten against the same route to exactly its own segments in order (nothing "
            "dropped, added or reordered; the rebuilt text is `/` + those segments joined by `/`), rewritten to the "
            "route's localized form and back yields the original segments, and localize_path on the path text (plain, "
            "with a trailing slash, with doubled slashes) against a table of two routes finds a route exactly when one "
            "matches and rebuilds that same normalised text, and through two-route tables per locale (`docs` localized) "
            "there and back is the original text.",
    "note": "Both parts are bounded stand-ins, not counted as proved; the second is a native enumeration of the extracted "
            "real code (Verus rejects labelled break/continue; CBMC did not finish a 2-segment x 2-route symbolic harness "
            "in 280 s), every failure it reports is a concrete failing input. Shims: PathSegment = leptos_router 0.7.8's "
            "definition copied, HashSet<usize> array-backed. Not covered: get_new_path (signals, Url, query string and "
            "fragment), round trips in which a parameter value equals another route's localized static (D12, section 4 of DESIGN.md: "
            "a genuine counterexample, outside the enumerated universe), the locale prefix "
            "added by get_new_path, route generation (I18nNestedRoute), a base path that is not followed by a segment "
            "boundary, longer paths / routes and other segment texts.",
    "design_ref": "DESIGN.md sections 8.12, 8.22",
}

CLAIMS["C19"] = {
    "technique": "contract-based deductive verification (Verus) of extracted real code (function + lifted statement)",
    "text": "Partial, unbounded proof of three of the listed rules only: (0) the `inherits` validation of "
            "CfgFileVisitor::visit_map (statements lifted verbatim, rule E3) accepts exactly the tables whose every key and "
            "target is a known locale (a listed one or the default, which is always part of the list) and in which the "
            "default locale is not a key; (1) the normalisation statement of ConfigFile::new "
            "(lifted verbatim into a function, rule E3) puts the default locale first, keeps exactly the listed names plus "
            "the default, moves a listed default without adding it again and adds an unlisted one exactly once; (2) contain_duplicates returns None exactly when no name is "
            "listed twice and otherwise exactly the set of names listed more than once.",
    "note": "Not covered (outside both verifiers): TOML/serde deserialisation incl. required fields (serde MapAccess), file "
            "selection, the call sites in ConfigFile::new / visit_map. "
            "Assumed std contracts: slice::swap, A5 `v.iter().position(p)` (one call; vstd cannot relate the temporary "
            "iterator to the vector in the `None` case), A2 "
            "Option::get_or_insert_with(BTreeSet::new).insert(k); C1 closure contract annotation on `|l| l == &cfg.default`.",
    "design_ref": "DESIGN.md section 8.5",
}

CLAIMS["C05"] = {
    "technique": "contract-based deductive verification (Verus) of the extracted real functions; ICU4X's category function uninterpreted",
    "text": "Partial, unbounded proof of the parse-time half only: for a literal foreign-key count, "
            "Plurals::populate_with_count_arg renders the form of exactly the category ICU4X returns for that count, "
            "locale and rule type (cardinal/ordinal), and `other` when that form was not written; "
            "PluralForm::from_icu_category is the identity on the six categories; renaming the count variable "
            "(populate_with_new_key) keeps the rule type and every written form.",
    "note": "The CLDR category itself is ICU4X (external): an uninterpreted function, so 'the form CLDR assigns' means "
            "'the form ICU4X's PluralRules::category_for returns'. Not covered: merging of `_zero|_one|..` suffixed keys "
            "(string code), cardinal/ordinal mixing and collision errors, unused-form warnings (set difference over ICU "
            "categories), the generated run-time `match`, the plural-rules cache. Assumed: a float literal converts to a "
            "FixedDecimal (finite JSON number); lawfulness of PluralForm's derived ordering.",
    "design_ref": "DESIGN.md section 8.5",
}

CLAIMS["C20"] = {
    "technique": "contract-based deductive verification (Verus) of the extracted real functions (four mechanical rewrites: I3, I4, I5, K2)",
    "text": "Partial, unbounded proof of the walk only: find_used_datakey adds to the option set exactly the options used by "
            "some key of the tree it is given -- Plurals iff some variable at any subkey depth is the count of a plural, each "
            "formatter family iff some variable carries a formatter of that family (number -> FormatNums, date / time / "
            "datetime -> FormatDateTime, list -> FormatList, currency -> FormatCurrency, the plain formatter -> nothing) -- "
            "nothing missing and nothing spurious, for every tree (any number of keys, any nesting depth, any set of "
            "formatters); TranslationsInfos::get_icu_keys_inner does so over every namespace (or the single un-namespaced "
            "tree); the recursive walk terminates (decreases on the tree); and the set get_icu_keys hands to the key tables (its first two statements, lifted verbatim, rule E3) holds "
            "exactly those options, starting from the empty set.",
    "note": "Not covered: how VarInfo.range_count / formatters are accumulated across locales and through foreign keys (the "
            "accumulator side is C08's get_keys / push_var / push_count contracts), get_keys / Options::into_data_keys (the "
            "ICU key tables, icu_datagen), get_locales / get_locales_langids (iterator adapters), the third statement of "
            "get_icu_keys (flat_map over the set). Rewrites: I3 (values() -> iter()), I4 (iter_vars() -> variables.iter(), "
            "the text of iter_vars is pinned), I5 (`in &set` -> `in set.iter()`), K2 (`P => continue` arm of a let-match "
            "-> guard match with the remaining statements in the other arm, the duplicated arm proved dead). Assumed: vstd's "
            "BTreeMap / BTreeSet iterator and HashSet::insert specs, lawfulness of the derived Ord of Key / Formatter and of "
            "the derived Hash/Eq of Options.",
    "design_ref": "DESIGN.md section 8.20",
}

NOT_APPLICABLE = {
    "C01": "text -> tree -> tokens -> HTML: byte-offset &str slicing (no str offset theory in Verus, >240 s for 4 bytes in Kani), &mut tree rewriting, quote! output; no function on the path can carry a checkable contract",
    "C02": "relates the outputs of two code generators after rustc compiled them; token streams have no semantics in either verifier",
    "C05": "the selecting function is ICU4X PluralRules (external); in-repo merge code is str suffix handling + BTreeMap-of-BTreeMap iterator chains outside both subsets",
    "C06": "RefCell-mediated resolution (dynamic borrow failure as cycle detector), iterator-adapter recursion over BTreeMap<String, ParsedValue>: outside Verus' subset, no termination in Kani",
    "C07": "Locale::merge = BTreeMap entry API with &mut returns + HashMap + RefCell<Vec<Warning>>: rejected by Verus, >400 s in Kani",
    "C10": "2-run / 3-format hyperproperty over serde front ends; single-call contracts cannot state it",
    "C13": "as_str/from_str/serde impls exist only as quote! output of create_locales_enum; verifying sample expansions would quantify over samples",
    "C16": "history property of leptos' reactive runtime; repo code is one-line delegation to RwSignal; a contract would restate leptos' semantics as an axiom",
    "C19": "toml/serde + filesystem; contain_duplicates uses get_or_insert_with on BTreeSet<&Key> (Verus rejects, Kani >400 s for 3 keys)",
}


