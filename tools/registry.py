"""Which units decide which property.  `verus`: unit names (units/<name>.toml).
`kani`: harness-group descriptors (see kani_unit.py)."""

PROPS = {
    "C04": {
        "level": "proof",
        "verus": ["c04_find_value"],
        "kani": [],
        "assumptions": [],
        "trusted_base": [],
    },
}
