"""Which units decide which property.  `verus`: unit names (units/<name>.toml).
`kani`: harness-group descriptors (see kani_unit.py)."""

PROPS = {
    "C11": {
        "level": "proof",
        "verus": ["c11_json_writer", "c11_string_indexer"],
        "kani": [],
        "assumptions": [],
        "trusted_base": [],
    },
    "C17": {
        "level": "proof",
        "verus": ["c17_js_string"],
        "kani": [],
        "assumptions": [],
        "trusted_base": [],
    },
    "C03": {
        "level": "proof",
        "verus": ["c03_defaulted"],
        "kani": [],
        "assumptions": [],
        "trusted_base": [],
    },
    "C04": {
        "level": "proof",
        "verus": ["c04_find_value"],
        "kani": [],
        "assumptions": [],
        "trusted_base": [],
    },
}
