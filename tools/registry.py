"""Which units decide which property.  `verus`: unit names (units/<name>.toml).
`kani`: harness-group descriptors (see kani_unit.py)."""

INTS = ["i8", "i16", "i32", "i64", "u8", "u16", "u32", "u64"]
FLOATS = ["f32", "f64"]
SHAPES = ["precondition_satisfiable", "exact", "fallback", "bounds_none_included", "bounds_none_excluded", "bounds_none_unbounded",
          "bounds_some_included", "bounds_some_excluded", "bounds_some_unbounded"]


def _ranges_harnesses(types):
    hs = ["end_bound_%s" % t for t in INTS + FLOATS]
    hs += ["excl_end_%s" % t for t in INTS]
    hs += ["count_forms_%s" % t for t in INTS] + ["count_forms_f64", "should_have_fallback_is_float_only"]
    hs += ["dm_%s::%s" % (t, s) for t in types for s in SHAPES]
    return hs


KANI_RANGES = {
    "name": "c04_kani_ranges",
    "package": "leptos_i18n_parser",
    "module": "parse_locales::ranges::verif_kani",
    "harness_files": ["kani/ranges.rs"],
    "flags": ["-Z", "function-contracts"],
    # quick: every range_end_bound contract, every exclusive-end lemma, do_match shapes for 3 types
    "quick": _ranges_harnesses(["i8", "u64", "f64"]),
    "thorough": _ranges_harnesses(INTS + FLOATS),
    "timeout": 600,
    "procs": 8,
    "source_hint": "leptos_i18n_parser/src/parse_locales/ranges.rs",
}

import c15_extract
import c12_extract
import c14_extract
import c09fk_extract

_FK_LENS = ["len_%d" % n for n in range(8)]
KANI_FK_ARGS = {
    "name": "c09_kani_fk_args",
    "cwd": lambda repo, root: __import__("os").path.join(root, "kani-crates", "c09fk"),
    "prepare": c09fk_extract.prepare,
    "module": "proofs",
    "harness_files": ["kani-crates/c09fk/src/lib.rs"],
    "features": [],
    "flags": [],
    "quick": ["%s::%s" % (m, h) for m in _FK_LENS[:6] for h in ("precondition_satisfiable", "no_panic")],
    "thorough": ["%s::%s" % (m, h) for m in _FK_LENS for h in ("precondition_satisfiable", "no_panic")],
    "timeout": 1200,
    "procs": 8,
    "target_tag": "c09fk",
    "bounded": "texts of at most 5 (quick) / 7 (thorough) bytes of valid UTF-8 over the bytes of `{ } a space é €`",
    "source_hint": "leptos_i18n_parser/src/parse_locales/parsed_value.rs",
}

_C14_LENS = ["len_%d" % n for n in range(8)]
KANI_URL_LOCALE = {
    "name": "c14_kani_url_locale",
    "cwd": lambda repo, root: __import__("os").path.join(root, "kani-crates", "c14"),
    "prepare": c14_extract.prepare,
    "module": "proofs",
    "harness_files": ["kani-crates/c14/src/lib.rs"],
    "features": [],
    "flags": [],
    "quick": ["%s::%s" % (m, h) for m in _C14_LENS[:5] for h in ("precondition_satisfiable", "root", "base")],
    "thorough": ["%s::%s" % (m, h) for m in _C14_LENS for h in ("precondition_satisfiable", "root", "base")],
    "timeout": 1800,
    "procs": 6,
    "target_tag": "c14",
    "bounded": "paths of at most 4 (quick) / 7 (thorough) characters after the base path, over the characters of the "
               "locale names, `/` and one other letter; locales en, en-US, fr in both listing orders; base paths "
               "\"\" and /a",
    "source_hint": "leptos_i18n_router/src/routing.rs",
}

import c14seg_extract  # noqa: E402
NATIVE_PATH_SEGMENTS = {
    "name": "c14_native_path_segments",
    "cwd": lambda repo, root: __import__("os").path.join(root, "kani-crates", "c14seg"),
    "prepare": c14seg_extract.prepare,
    "checks": ["identity_rewrite", "there_and_back", "localize_text", "table_round_trip"],
    "env": {"quick": {"C14SEG_MAX_N": "3", "C14SEG_MAX_M": "3"}, "thorough": {"C14SEG_MAX_N": "4", "C14SEG_MAX_M": "5"}},
    "timeout": 900,
    "target_tag": "c14seg",
    "bounded": "exhaustive native enumeration, not symbolic: every path of at most 3 (quick) / 4 (thorough) segments over "
               "{a, docs, x} x every route of at most 3 (quick) / 5 (thorough) segments over {Unit, Static \"\", Static a, "
               "Static docs, Param, OptionalParam a, OptionalParam opt, Splat}; `docs` localized as `documents`",
    "source_hint": "leptos_i18n_router/src/routing.rs",
}

_PO = ["po_1_1", "po_2_1", "po_1_2", "po_2_2", "po_3_1", "po_3_2", "po_2_3", "po_3_3"]
KANI_NEGOTIATION = {
    "name": "c12_kani_negotiation",
    "cwd": lambda repo, root: __import__("os").path.join(root, "kani-crates", "c12"),
    "prepare": c12_extract.prepare,
    "module": "proofs",
    "harness_files": ["kani-crates/c12/src/lib.rs"],
    "features": [],
    "flags": [],
    "quick": ["matching_predicate", "model_tail_sort", "concrete_d5"] + ["%s::%s" % (m, h) for m in _PO[:4]
                                                                       for h in ("precondition_satisfiable", "check")],
    "thorough": ["matching_predicate", "model_tail_sort", "concrete_d5"] + ["%s::%s" % (m, h) for m in _PO
                                                                          for h in ("precondition_satisfiable", "check")],
    "timeout": 3000,
    "procs": 8,
    "target_tag": "c12",
    "bounded": "at most 3 supported locales and 2 (quick) / 3 (thorough) requested languages; subtags over a closed "
               "universe (2 languages + und, 2 scripts, 2 regions, at most one variant out of 2)",
    "source_hint": "leptos_i18n/src/langid.rs",
}


def _c15(name, features):
    return {
        "name": name,
        "cwd": lambda repo, root: __import__("os").path.join(root, "kani-crates", "c15"),
        "prepare": c15_extract.prepare,
        "module": "proofs",
        "harness_files": ["kani-crates/c15/src/lib.rs"],
        "features": features,
        "flags": [],
        "quick": ["resolve_locale_order", "once_then_first_value", "fetch_variants_first_value", "subcontext_order",
                  "cookie_consulted_only_when_enabled"],
        "timeout": 300,
        "procs": 4,
        "target_tag": "c15",
        "source_hint": "leptos_i18n/src/fetch_locale.rs, leptos_i18n/src/context.rs",
    }


_FA = ["date_length", "time_length", "width", "grouping", "list_type", "list_style"]
KANI_FORMATTER = {
    "name": "c18_kani_formatter",
    "package": "leptos_i18n_parser",
    "module": "utils::formatter::verif_kani",
    "harness_files": ["kani/formatter.rs"],
    "flags": [],
    "quick": ["%s_%d::check" % (a, n) for n in (0, 1, 2) for a in _FA] + ["name_dispatch_1"],
    "thorough": ["%s_%d::check" % (a, n) for n in (0, 1, 2, 3) for a in _FA] + ["name_dispatch_1"],
    "timeout": 900,
    "procs": 10,
    "bounded": "argument lists of exactly 0..=2 (quick) / 0..=3 (thorough) pairs over a closed universe of 3 names x "
               "(documented values + junk + empty); unwind 20 with unwinding assertions",
    "source_hint": "leptos_i18n_parser/src/utils/formatter.rs",
}

KANI_RANGES_MULTIPLE = {
    "name": "c04_kani_ranges_multiple",
    "package": "leptos_i18n_parser",
    "module": "parse_locales::ranges::verif_kani",
    "harness_files": ["kani/ranges.rs"],
    "flags": ["-Z", "function-contracts"],
    "quick": ["dmm_i8::exact_or_bounds", "dms_i8::two_symbolic_children", "dms_u64::two_symbolic_children",
              "check_de_1", "check_de_2", "check_de_3"],
    # three_children costs ~750 s per type (measured): thorough runs it for i8 only
    "thorough": ["dmm_%s::exact_or_bounds" % t for t in INTS] + ["dms_%s::two_symbolic_children" % t for t in INTS] + ["dmm_i8::three_children",
                 "check_de_1", "check_de_2", "check_de_3", "check_de_4"],
    "timeout": 1500,
    "procs": 8,
    "bounded": "`Multiple` values with 2 children of symbolic flat shape (5 shapes) or 2-3 children of fixed shapes (all operands "
               "symbolic, unwind 3/4 with unwinding assertions), integer types only; check_de_inner on 1..=3 (thorough 4) branches drawn from "
               "{plain, fallback, list with fallback, list without}",
    "source_hint": "leptos_i18n_parser/src/parse_locales/ranges.rs",
}

PROPS = {
    "C20": {
        "level": "proof",
        "verus": ["c20_datakey"],
        "kani": [],
    },
    "C05": {
        "level": "proof",
        "verus": ["c05_plural_select"],
        "kani": [],
    },
    "C19": {
        "level": "proof",
        "verus": ["c19_config"],
        "kani": [],
    },
    "C12": {
        "level": "model_checking",
        "verus": ["c12_matching"],
        "kani": [KANI_NEGOTIATION],
        "explanation": "bounded model checking (Kani/CBMC) of the negotiation functions of langid.rs, extracted verbatim "
                       "(one rewrite) and compiled against small stand-ins for icu_locid's types and for std's Vec; "
                       "a stand-in, not a proof: list lengths and the subtag universe are bounded",
    },
    "C14": {
        "level": "model_checking",
        "verus": [],
        "kani": [KANI_URL_LOCALE],
        "native": [NATIVE_PATH_SEGMENTS],
        "explanation": "bounded model checking (Kani/CBMC) of get_locale_from_path, extracted verbatim; "
                       "a stand-in, not a proof: path length and alphabet are bounded; plus an exhaustive native enumeration "
                       "(closed universe) of the segment-level rewriting functions, extracted verbatim",
    },
    "C18": {
        "level": "model_checking",
        "verus": ["c18_from_args_helper"],
        "kani": [KANI_FORMATTER],
        "explanation": "bounded model checking (Kani/CBMC) of the real from_args / from_name_and_args code; "
                       "a stand-in, not a proof: list length is bounded",
    },
    "C15": {
        "level": "proof",
        "verus": [],
        "kani": [_c15("c15_kani_default", []), _c15("c15_kani_hydrate", ["hydrate"])],
    },
    "C08": {
        "level": "proof",
        "verus": ["c08_push_count", "c08_get_keys", "c03_merge"],
        "kani": [],
    },
    "C09": {
        "level": "proof",
        "verus": ["c04_find_value", "c09_either_of", "c03_defaulted", "c11_json_writer", "c17_js_string", "c20_datakey"],
        "kani": [KANI_RANGES, KANI_FK_ARGS],
    },
    "C11": {
        "level": "proof",
        "verus": ["c11_json_writer", "c11_string_indexer", "c11_check_locales", "c11_index_traversal"],
        "kani": [],
        "assumptions": [],
        "trusted_base": [],
    },
    "C17": {
        "level": "proof",
        "verus": ["c17_js_string"],
        "kani": [],
        "assumptions": [],
        "trusted_base": [],
    },
    "C03": {
        "level": "proof",
        "verus": ["c03_defaulted", "c11_check_locales", "c03_merge"],
        "kani": [],
        "assumptions": [],
        "trusted_base": [],
    },
    "C04": {
        "level": "proof",
        "verus": ["c04_find_value", "c04_count_arg"],
        "kani": [KANI_RANGES, KANI_RANGES_MULTIPLE],
        "assumptions": [],
        "trusted_base": [],
    },
}
