"""known_findings.txt: committed, never written at run time.

Line formats (one per line, `#` comments):
  fixed: property=<id> <commit> <what failed>
  open:  property=<id> obligation=<obligation id prefix> :: <what fails>
A `fixed:` entry suppresses nothing.  An `open:` entry turns the one refuted obligation whose id
starts with the given prefix into a KNOWN-FINDING line; any other refuted obligation of the same
property is still a violation.
"""
import re


def load(path):
    out = []
    try:
        lines = open(path, encoding="utf-8").read().split("\n")
    except OSError:
        return out
    for ln in lines:
        ln = ln.strip()
        if not ln or ln.startswith("#"):
            continue
        m = re.match(r"open:\s+property=(\S+)\s+obligation=(.+?)\s+::\s+(.*)$", ln)
        if m:
            out.append({"state": "open", "property": m.group(1), "obligation": m.group(2).strip(),
                        "what": m.group(3)})
            continue
        m = re.match(r"fixed:\s+property=(\S+)\s+(\S+)\s+(.*)$", ln)
        if m:
            out.append({"state": "fixed", "property": m.group(1), "commit": m.group(2), "what": m.group(3)})
    return out


def match(known, prop, failure):
    for k in known:
        if k["state"] == "open" and k["property"] == prop and failure["id"].startswith(k["obligation"]):
            return k
    return None
