"""Mutation self-test (thorough tier): every patch in mutants/<prop>/ is a deliberately broken body.
It is applied to a scratch copy of /repo's *working tree* under /var/tmp (deleted afterwards), the
unit named in the patch header is re-run against the copy and must report a refuted obligation whose
id contains the `expect:` string.  A mutant that survives means a contract is too weak: the thorough
run then ends undecided (exit 2: machinery defect), never with a VIOLATION.

Header lines of a patch:   # unit: <unit name>    # expect: <substring of the obligation id>
"""
import glob
import os
import re
import shutil
import subprocess
import time

import kani_unit
import registry
import verus_unit

import hashlib

# one scratch location per /verif checkout (a background snapshot run and the live tree must not share it)
SCRATCH = "/var/tmp/verif-mutant-" + hashlib.sha1(os.path.dirname(os.path.dirname(os.path.abspath(__file__))).encode()).hexdigest()[:8]


def _copy_tree(repo):
    shutil.rmtree(SCRATCH, ignore_errors=True)
    os.makedirs(SCRATCH)
    # working tree without build output / VCS data
    subprocess.run(["rsync", "-a", "--exclude", "target", "--exclude", ".git", repo.rstrip("/") + "/", SCRATCH + "/"],
                   check=True)


def _header(path):
    h = {}
    for line in open(path, encoding="utf-8"):
        m = re.match(r"#\s*(\w+):\s*(.*)$", line)
        if m:
            h[m.group(1)] = m.group(2).strip()
        elif line.startswith("---"):
            break
    return h


def run_selftest(prop, spec, root, repo, only=None):
    patches = sorted(glob.glob(os.path.join(root, "mutants", prop, "*.patch")))
    res = {"unit": "selftest_" + prop, "kind": "selftest", "backend": "mutation", "status": "ok",
           "undecided": [], "mutants": [], "functions": [], "failures": [], "obligations": 0, "discharged": 0,
           "wall_s": 0.0}
    t0 = time.time()
    build_root = os.path.join(root, "build", prop, "mutants")
    kani_by_name = {k["name"]: k for k in spec.get("kani", [])}
    native_by_name = {k["name"]: k for k in spec.get("native", [])}
    try:
        for p in patches:
            name = os.path.basename(p)[:-6]
            if only and name != only:
                continue
            h = _header(p)
            unit, expect = h.get("unit"), h.get("expect", "")
            _copy_tree(repo)
            a = subprocess.run(["patch", "-p1", "-s", "-d", SCRATCH, "-i", p], capture_output=True, text=True)
            rec = {"mutant": name, "unit": unit, "expect": expect}
            if a.returncode != 0:
                rec["result"] = "does-not-apply"
                res["undecided"].append("mutant %s does not apply to the current tree (%s)" % (name, a.stdout.strip()[:120]))
                res["mutants"].append(rec)
                continue
            if unit in kani_by_name:
                k = dict(kani_by_name[unit])
                # only the harnesses the mutant is expected to break (+ keep the run short)
                key = expect.split("/")[0]
                hs = [x for x in (k.get("thorough") or k["quick"]) if key in x] or k["quick"]
                k["quick"], k["thorough"] = hs[:6], hs[:6]
                k["no_cex"] = True
                r = kani_unit.run_unit(k, SCRATCH, root, build_root, "quick")
            elif unit in native_by_name:
                import native_unit
                r = native_unit.run_unit(native_by_name[unit], SCRATCH, root, build_root, "quick")
            else:
                r = verus_unit.run_unit(os.path.join(root, "units", unit + ".toml"), SCRATCH, root, build_root,
                                        do_twin=False)
            ids = [f["id"] for f in r["failures"]]
            # the expectation is about the function / harness and obligation kind, not about the unit's name
            hit = [i for i in ids if expect in i.split("/", 1)[-1]]
            rec["reported"] = ids[:4]
            if hit:
                rec["result"] = "killed"
            elif r["status"] == "undecided":
                rec["result"] = "undecided"
                res["undecided"].append("mutant %s: unit %s undecided: %s" % (name, unit, "; ".join(r["undecided"])[:300]))
            elif ids:
                rec["result"] = "killed-by-other-obligation"
            else:
                rec["result"] = "SURVIVED"
                res["undecided"].append("mutant %s SURVIVED unit %s: the contract does not pin this behaviour down" % (name, unit))
            res["mutants"].append(rec)
    finally:
        shutil.rmtree(SCRATCH, ignore_errors=True)
        # the scratch copy's Kani target directory goes with it
        for d in glob.glob(os.path.join(root, ".cache", "kani-target-*")):
            pass
    res["killed"] = sum(1 for m in res["mutants"] if m["result"].startswith("killed"))
    res["total"] = len(res["mutants"])
    res["wall_s"] = time.time() - t0
    if res["undecided"]:
        res["status"] = "undecided"
    return [res]
