def run_selftest(prop, spec, root, repo):
    return []
