"""Run one Verus unit: extract -> generate -> verus -> parse -> classify.

Result dict (see run_unit):
  status        "ok" | "refuted" | "undecided"
  functions     per function: {name, mode, success, obligations, time_us, rlimit}
  obligations / discharged   labelled AIR assertions (see DESIGN 2.2) in this crate's functions
  failures      refuted obligations: {id, function, kind, message, gen_line, source, text}
  undecided     reasons that make the run undecided (exit 2), never an alarm
  trusted       mechanical scan of assumption-introducing constructs in the generated file
  extraction    per extract: source lines, rewrites applied, audit result
"""
import json
import os
import re
import shutil
import subprocess
import time

import vx

VERUS = shutil.which("verus") or "/usr/local/bin/verus"

# messages that are definite refutations of an obligation (the SMT solver answered `sat`/unknown
# on the negated VC with a model, Verus reports the labelled assertion)
_REFUTE = (
    ("postcondition not satisfied", "postcondition"),
    ("precondition not satisfied", "precondition"),
    ("invariant not satisfied", "invariant"),
    ("loop invariant not satisfied", "invariant"),
    ("assertion failed", "assertion"),
    ("decreases not satisfied", "decreases"),
    ("possible arithmetic underflow/overflow", "arithmetic"),
    ("possible division by zero", "arithmetic"),
    ("possible bit shift underflow/overflow", "arithmetic"),
    ("index out of bounds", "bounds"),
    ("unreachable", "unreachable"),
    ("assert_forall_by", "assertion"),
    ("failed to prove", "assertion"),
    ("cannot show", "assertion"),
    ("recommendation not met", None),  # not an error
)
_UNDECIDED = ("rlimit", "resource limit", "timed out", "not supported", "unsupported", "internal error",
              "panicked", "ICE", "mismatched types", "cannot find", "unresolved")

_TRUST_RX = re.compile(
    r"\b(assume\s*\(|admit\s*\(|external_body|assume_specification|external_fn_specification|"
    r"axiom\s+fn|uninterp\s+spec|external_type_specification|#\[verifier::external\])")


def scan_trusted(text):
    out = []
    for i, line in enumerate(text.split("\n"), 1):
        s = line.strip()
        if s.startswith("//"):
            continue
        if _TRUST_RX.search(line):
            out.append("%d: %s" % (i, s[:200]))
    return out


def _primary_gen_span(diag, gen_name):
    """follow expansion chains until a span in the generated file is found"""
    def walk(sp):
        while sp is not None:
            if os.path.basename(sp.get("file_name", "")) == gen_name:
                return sp
            exp = sp.get("expansion")
            sp = exp.get("span") if exp else None
        return None
    prim = [s for s in diag.get("spans", []) if s.get("is_primary")] + \
           [s for s in diag.get("spans", []) if not s.get("is_primary")]
    for sp in prim:
        r = walk(sp)
        if r is not None:
            return r
    return None


def _classify(msg):
    low = msg.lower()
    for pat, kind in _REFUTE:
        if pat in low:
            return ("refute", kind) if kind else ("note", None)
    for pat in _UNDECIDED:
        if pat.lower() in low:
            return ("undecided", pat)
    return ("unknown", None)


def count_air_asserts(air_path, crate):
    """labelled (assert ("..") ..) nodes per `;; Function-Def <crate>::fn` block.
    Verus emits several query blocks per function (body, termination/spec checks); all count."""
    per_fn = {}
    cur = None
    rx_def = re.compile(r"^;; Function-(\S+) (\S+)")
    try:
        f = open(air_path, encoding="utf-8", errors="replace")
    except OSError:
        return per_fn
    with f:
        prev_assert = False
        for line in f:
            if line.startswith(";; "):
                m = rx_def.match(line)
                if m:
                    name = m.group(2)
                    cur = name if name.startswith(crate + "::") else None
                prev_assert = False
                continue
            if cur is None:
                continue
            s = line.strip()
            if prev_assert and s.startswith('("'):
                per_fn.setdefault(cur, []).append(s[:120])
            prev_assert = (s == "(assert")
    return per_fn


def run_verus(gen_path, log_dir=None, rlimit=None, timeout=600):
    cmd = [VERUS, gen_path, "--output-json", "--time-expanded", "--multiple-errors", "20",
           "--error-format=json", "--triggers-mode", "silent"]
    if log_dir:
        cmd += ["--log", "air", "--log-dir", log_dir]
    if rlimit:
        cmd += ["--rlimit", str(rlimit)]
    t0 = time.time()
    try:
        p = subprocess.run(cmd, capture_output=True, text=True, timeout=timeout,
                           cwd=os.path.dirname(gen_path))
        rc, out, err = p.returncode, p.stdout, p.stderr
    except subprocess.TimeoutExpired as e:
        rc, out, err = 124, (e.stdout or b"").decode() if isinstance(e.stdout, bytes) else (e.stdout or ""), "timeout"
    wall = time.time() - t0
    js = None
    try:
        js = json.loads(out)
    except Exception:
        # stdout may have leading non-json text
        k = out.find("{")
        if k >= 0:
            try:
                js = json.loads(out[k:])
            except Exception:
                js = None
    diags = []
    for line in err.split("\n"):
        if line.startswith("{"):
            try:
                diags.append(json.loads(line))
            except Exception:
                pass
    return {"rc": rc, "json": js, "diags": diags, "stderr": err, "wall": wall, "cmd": " ".join(cmd)}


def _fn_ranges(gen_text):
    """line ranges of fn items in the generated text: [(first_line, last_line, name)]"""
    toks = vx.lex(gen_text)
    out = []
    line_of = lambda off: gen_text.count("\n", 0, off) + 1
    i = 0
    while i < len(toks):
        t = toks[i]
        if t.kind == "ident" and t.text == "fn" and i + 1 < len(toks) and toks[i + 1].kind == "ident":
            b = vx.next_body_brace(toks, i)
            if b is not None:
                e = vx.match_close(toks, b)
                out.append((line_of(t.start), line_of(toks[e].end), toks[i + 1].text))
        i += 1
    return out


def innermost_fn(ranges, line):
    best = None
    for (a, b, name) in ranges:
        if a <= line <= b and (best is None or (b - a) < (best[1] - best[0])):
            best = (a, b, name)
    return best[2] if best else None


def run_unit(unit_path, repo, verif_root, build_root, do_twin=True, rlimit=None):
    unit = vx.load_unit(unit_path)
    name = unit["unit"]
    res = {"unit": name, "backend": "verus", "status": "undecided", "functions": [], "failures": [],
           "undecided": [], "obligations": 0, "discharged": 0, "trusted": [], "extraction": [],
           "smt_time_ms": 0, "wall_s": 0.0, "checker_cmd": "", "extracted_fns": [], "twin": None}
    bdir = os.path.join(build_root, name)
    shutil.rmtree(bdir, ignore_errors=True)
    os.makedirs(bdir)
    try:
        gen_text, genmap, report = vx.build_unit(repo, unit, verif_root)
    except vx.VxError as e:
        res["undecided"].append("extraction: %s" % e)
        return res
    res["extraction"] = report
    res["extracted_fns"] = [ex["path"][-1].lstrip("^").split()[-1] for ex in unit.get("extract", [])
                            if ex.get("kind", "fn") == "fn"] + list(unit.get("_default_contract_fns", []))
    res["default_contract_fns"] = list(unit.get("_default_contract_fns", []))
    res["has_impl_all"] = bool(unit.get("impl_all"))
    gen_path = os.path.join(bdir, name + ".rs")
    open(gen_path, "w", encoding="utf-8").write(gen_text)
    res["generated"] = gen_path
    res["trusted"] = scan_trusted(gen_text)
    log_dir = os.path.join(bdir, "log")
    # solver budget: three times Verus' default (a query that needs more than a third of this is reported as a
    # slow query in the evidence; exhausting the budget is "undecided", never an alarm)
    rlimit = rlimit or unit.get("rlimit", 30)
    r = run_verus(gen_path, log_dir=log_dir, rlimit=rlimit)
    res["checker_cmd"] = r["cmd"]
    res["wall_s"] = r["wall"]
    js = r["json"]
    if js is None or "verification-results" not in js:
        res["undecided"].append("verus produced no result (rc=%s): %s" % (r["rc"], r["stderr"][-800:]))
        return res
    vr = js["verification-results"]
    if vr.get("encountered-vir-error"):
        res["undecided"].append("verus front-end error (unsupported construct / type error): " +
                                "; ".join(d.get("message", "") for d in r["diags"] if d.get("level") == "error")[:800])
    crate = name
    # per-function results
    fb = []
    try:
        for m in js["times-ms"]["smt"]["smt-run-module-times"]:
            fb += m.get("function-breakdown", [])
        res["smt_time_ms"] = js["times-ms"]["smt"].get("smt-run", 0)
    except Exception:
        pass
    asserts = count_air_asserts(os.path.join(log_dir, "root.air"), crate)
    seen = {}
    for f in fb:
        fn = f["function"]
        if not fn.startswith(crate + "::"):
            continue
        ent = seen.setdefault(fn, {"name": fn[len(crate) + 2:], "mode": f.get("mode:", f.get("mode", "")),
                                   "success": True, "time_us": 0, "rlimit": 0})
        ent["success"] = ent["success"] and bool(f.get("success"))
        ent["time_us"] += f.get("time-micros", 0)
        ent["rlimit"] += f.get("rlimit", 0)
    for fn, ent in seen.items():
        ent["obligations"] = len(asserts.get(fn, []))
        ent["sample_obligations"] = asserts.get(fn, [])[:3]
        res["functions"].append(ent)
    res["obligations"] = sum(f["obligations"] for f in res["functions"])
    res["discharged"] = sum(f["obligations"] for f in res["functions"] if f["success"])
    # diagnostics
    ranges = _fn_ranges(gen_text)
    ex_fn = {}
    for ex in unit.get("extract", []):
        last = ex["path"][-1].lstrip("^")
        if ex.get("kind") == "block":
            m = re.search(r"fn\s+(\w+)", ex.get("wrap_head", ""))
            if m:
                ex_fn[ex["name"]] = m.group(1)
        elif last.startswith("fn "):
            ex_fn[ex["name"]] = last[3:].strip()
    for ia in unit.get("impl_all", []):
        for fname in unit.get("_default_contract_fns", []):
            ex_fn[ia["name"] + "__" + fname] = fname
    gen_lines = gen_text.split("\n")
    gen_name = os.path.basename(gen_path)
    for d in r["diags"]:
        if d.get("level") != "error":
            continue
        msg = d.get("message", "")
        if msg.startswith("aborting due to"):
            continue
        cls, kind = _classify(msg)
        sp = _primary_gen_span(d, gen_name)
        line = sp["line_start"] if sp else None
        text = gen_lines[line - 1].strip() if line and line <= len(gen_lines) else ""
        fn = innermost_fn(ranges, line) if line else None
        src = None
        if line and line <= len(genmap) and genmap[line - 1]:
            ex, f, sl = genmap[line - 1]
            src = "%s:%s" % (f, sl) if sl else "%s (annotation of %s)" % (f, ex)
            # the line belongs to an extracted piece: its function name is known from the unit file (the
            # brace-matching heuristic of _fn_ranges is fooled by `{` inside requires/ensures clauses)
            if ex in ex_fn:
                fn = ex_fn[ex]
        labels = []
        for s2 in d.get("spans", []):
            if not s2.get("label"):
                continue
            l2 = s2.get("line_start") if os.path.basename(s2.get("file_name", "")) == gen_name else None
            src2 = None
            if l2 and l2 <= len(genmap) and genmap[l2 - 1] and genmap[l2 - 1][2]:
                src2 = "%s:%s" % (genmap[l2 - 1][1], genmap[l2 - 1][2])
            labels.append({"label": s2["label"], "gen_line": l2, "source": src2,
                           "text": gen_lines[l2 - 1].strip() if l2 and l2 <= len(gen_lines) else None})
        rec = {"function": fn, "kind": kind, "message": msg, "gen_line": line, "text": text,
               "source": src, "labels": labels,
               "id": "%s/%s/%s@%s" % (name, fn, kind, vx.norm(text)[:100] if text else "?")}
        if cls == "refute":
            if not any(x["id"] == rec["id"] for x in res["failures"]):
                res["failures"].append(rec)
        elif cls == "note":
            continue
        else:
            res["undecided"].append("%s: %s (%s)" % (cls, msg[:300], text[:120]))
    failed_fns = [f["name"] for f in res["functions"] if not f["success"]]
    if failed_fns and not res["failures"] and not res["undecided"]:
        res["undecided"].append("functions failed without a classified diagnostic: %s" % failed_fns)
    if vr.get("errors", 0) and not res["failures"] and not res["undecided"]:
        res["undecided"].append("verus reported %d errors, none classified" % vr["errors"])
    # vacuity twin
    if do_twin and not res["undecided"]:
        try:
            ttext, _, _ = vx.build_unit(repo, unit, verif_root, twin=True)
            tpath = os.path.join(bdir, name + "_twin.rs")
            open(tpath, "w", encoding="utf-8").write(ttext)
            tr = run_verus(tpath)
            tjs = tr["json"]
            tfb = []
            for m in tjs["times-ms"]["smt"]["smt-run-module-times"]:
                tfb += m.get("function-breakdown", [])
            tcr = name + "_twin"
            ok_fns = {}
            for f in tfb:
                if f["function"].startswith(tcr + "::") and f["function"].endswith("__twin"):
                    n = f["function"][len(tcr) + 2:-len("__twin")].split("::")[-1]
                    ok_fns[n] = ok_fns.get(n, True) and bool(f.get("success"))
            vac = [n for n in res["extracted_fns"] if ok_fns.get(n) is True]
            no_twin = {ex["path"][-1].lstrip("^").split()[-1] for ex in unit.get("extract", []) if not ex.get("twin", True)}
            missing = [n for n in res["extracted_fns"] if n not in ok_fns and n not in no_twin]
            res["twin"] = {"checked": sorted(ok_fns), "vacuous": vac, "not_seen": missing,
                           "wall_s": tr["wall"]}
            res["wall_s"] += tr["wall"]
            if vac:
                res["undecided"].append("vacuity: `ensures false` twin verified for %s (contradictory "
                                        "preconditions or assumptions)" % vac)
            if missing:
                res["undecided"].append("vacuity twin: no exec query seen for %s" % missing)
        except Exception as e:  # pragma: no cover
            res["undecided"].append("vacuity twin failed to run: %r" % (e,))
    if res["undecided"]:
        res["status"] = "undecided"
    elif res["failures"] or failed_fns:
        res["status"] = "refuted"
    else:
        res["status"] = "ok" if res["obligations"] > 0 else "undecided"
        if res["obligations"] == 0:
            res["undecided"].append("vacuity: zero obligations generated")
    return res
