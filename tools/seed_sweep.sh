#!/bin/sh
# seed_sweep.sh : for every seeded/<id>/patch.diff: git -C /repo apply; bin/check <prop> --tier quick; undo.
# Writes seeded/<id>/last_run.txt (exit code + the VIOLATION / UNDECIDED / OK lines).
cd /verif || exit 2
[ -z "$(git -C /repo status --porcelain)" ] || { echo "/repo not clean"; exit 2; }
# optional arguments: seed ids to run (default: all)
for d in $(if [ $# -gt 0 ]; then for a in "$@"; do echo seeded/$a/; done; else ls -d seeded/*/; fi); do
  id=$(basename $d); prop=${id%-*}
  git -C /repo apply "$PWD/$d/patch.diff" || { echo "$id: patch does not apply" | tee $d/last_run.txt; continue; }
  bin/check $prop --tier quick --no-evidence > /tmp/seed_sweep.$$ 2>&1; rc=$?
  git -C /repo checkout -- . ; git -C /repo clean -fdq
  { echo "bin/check $prop --tier quick  (patch applied to /repo with git apply, undone afterwards)"; echo "exit=$rc"; grep -E "^VIOLATION|^UNDECIDED|^OK|^KNOWN" /tmp/seed_sweep.$$ | cut -c1-300 | head -6; } > $d/last_run.txt
  echo "$id exit=$rc $(grep -cE '^VIOLATION' /tmp/seed_sweep.$$) violation line(s)"
  rm -f /tmp/seed_sweep.$$
done
