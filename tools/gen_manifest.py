#!/usr/bin/env python3
"""Regenerates /verif/MANIFEST.json from the claims below (kept next to tools/registry.py so that the
manifest, the registry and DESIGN.md cannot drift apart silently)."""
import json
import os
import subprocess
import sys

ROOT = os.path.dirname(os.path.dirname(os.path.abspath(__file__)))
sys.path.insert(0, os.path.join(ROOT, "tools"))
import registry  # noqa: E402

from claims import CLAIMS, NOT_APPLICABLE  # noqa: E402


def main():
    claimed = [p for p in sorted(registry.PROPS) if p in CLAIMS]
    props = [json.loads(l)["id"] for l in open(os.path.join(ROOT, "properties.jsonl"))]
    try:
        hooks = subprocess.run(["git", "-C", "/repo", "log", "--format=%h %s"], capture_output=True, text=True).stdout
        hook_commits = [l.split()[0] for l in hooks.split("\n") if l and "verif hooks" in l]
    except Exception:
        hook_commits = []
    checks = []
    for p in claimed:
        c = CLAIMS[p]
        level = registry.PROPS[p].get("level", "proof")
        checks.append({
            "property_id": p,
            "quick_cmd": "bin/check %s --tier quick" % p,
            "thorough_cmd": "bin/check %s --tier thorough" % p,
            "evidence_file": "/verif/evidence/%s.json" % p,
            "replay_cmd_template": "bin/check %s --replay {path}" % p,
            "engine": "check",
            "level_claimed": {"category": level, "text": c["text"], "design_ref": c["design_ref"]},
            "level_note": c["note"],
            "technique": c["technique"],
        })
    na = []
    for p in props:
        if p in claimed:
            continue
        reason = NOT_APPLICABLE.get(p) or ("claimed in DESIGN.md but its check is not built yet: " + CLAIMS[p]["technique"]
                                           if p in CLAIMS else "no contract within reach")
        na.append({"property_id": p, "reason": reason})
    n_fixed = sum(1 for l in open(os.path.join(ROOT, "known_findings.txt")) if l.startswith("fixed:"))
    m = {
        "version": 1,
        "setup_cmd": "bin/setup",
        "hooks": {
            "guard": "cfg(kani)",
            "enable": "cargo kani sets --cfg kani; the hook lines (kani::ensures attributes, two #[cfg(kani)] child "
                      "modules including /verif/kani/*.rs, one check-cfg lint entry) vanish in every other build",
            "baseline_off_cmd": "cd /repo && cargo nextest run --workspace --no-fail-fast --offline || "
                                "cargo test --workspace --no-fail-fast --offline",
            "source_commits": hook_commits,
            "add_only": True,
        },
        "engines": [{
            "name": "check", "path": "bin/check", "serves_properties": claimed,
            "kind_free_text": "driver: mechanical extraction (tools/vx.py) of the real functions from /repo's working "
                              "tree, contracts from contracts/ + units/, Verus single-file verification; Kani harness "
                              "modules (kani/*.rs) compiled inside the repo crate under cfg(kani)",
        }],
        "checks": checks,
        "not_applicable": na,
        "notes": "Technique family: contract-based deductive verification of the real code (Verus 0.2026.09.13, Kani 0.68). "
                 "exit 0 = all obligations discharged; exit 1 + VIOLATION = an obligation discharged on the pinned tree "
                 "(baseline/*.json) is now refuted; exit 2 = undecided (lost anchor, unsupported construct, resource "
                 "limit, vacuity guard), never an alarm. known_findings.txt lists the %d defects repaired by fix: commits." % n_fixed,
    }
    with open(os.path.join(ROOT, "MANIFEST.json"), "w") as fh:
        json.dump(m, fh, indent=1)
        fh.write("\n")
    print("MANIFEST.json: %d checks, %d not_applicable" % (len(checks), len(na)))


if __name__ == "__main__":
    main()
