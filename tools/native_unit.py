"""Run one native exhaustive unit: a harness crate under /verif/kani-crates whose sources are extracted verbatim from
/repo, whose `cargo test` enumerates a closed, finite universe of inputs and checks the property on each.

This is the *bounded stand-in* of last resort (functions that neither Verus accepts nor CBMC finishes on): it is
labelled bounded, never counted as proved, and every failure it reports is, by construction, a concrete input on
which the real (extracted) code fails.  Result dict has the same shape as verus_unit.run_unit / kani_unit.run_unit;
each check is a "function" with obligations = number of cases enumerated."""
import os
import re
import time

import kani_unit
import vx

_rx_cases = re.compile(r"^CASES check=(\S+) n=(\d+)", re.M)
_rx_fail = re.compile(r"^FAIL check=(\S+) segs=(\S*) codes=(\S*) path=(\S*) route=(.*?) msg=(.*)$", re.M)


def _cargo_test(spec, root, build_root, env):
    cwd = spec["cwd"](None, root)
    e = {"CARGO_TARGET_DIR": os.path.join(root, "build", ".cache", "native-" + spec["target_tag"])}
    e.update(env)
    cmd = [kani_unit.CARGO, "test", "--offline", "--", "--nocapture", "--test-threads", "1"]
    rc, out, wall = kani_unit._run(cmd, cwd, spec.get("timeout", 600), e)
    return rc, out, wall, " ".join("%s=%s" % kv for kv in sorted(env.items())) + " " + " ".join(cmd) + "  (in %s)" % cwd


def run_unit(spec, repo, root, build_root, tier):
    res = {"unit": spec["name"], "kind": "native", "backend": "native", "status": "ok", "undecided": [],
           "functions": [], "failures": [], "obligations": 0, "discharged": 0, "wall_s": 0.0,
           "bounded": spec["bounded"], "source_hint": spec.get("source_hint"), "extraction": None,
           "checker_cmd": "", "smt_time_ms": 0}
    try:
        res["extraction"] = spec["prepare"](repo, root)
    except vx.VxError as ex:
        res["undecided"].append(str(ex))
        res["status"] = "undecided"
        return res
    env = dict(spec["env"][tier])
    rc, out, wall, cmd = _cargo_test(spec, root, build_root, env)
    res["wall_s"] = wall
    res["checker_cmd"] = cmd
    os.makedirs(build_root, exist_ok=True)
    with open(os.path.join(build_root, spec["name"] + ".log"), "w") as fh:
        fh.write(out)
    cases = {m.group(1): int(m.group(2)) for m in _rx_cases.finditer(out)}
    fails = {m.group(1): m for m in _rx_fail.finditer(out)}
    if rc == 124:
        res["undecided"].append("timeout after %d s" % spec.get("timeout", 600))
    elif not cases:
        # does not compile against the shims any more (signature / type change), or the runner did not start
        tail = " | ".join(l for l in out.split("\n") if l.startswith("error"))[:300]
        res["undecided"].append("harness crate did not run (unsupported change of the extracted items?): %s" % tail)
    for chk in spec["checks"]:
        if chk not in cases:
            if cases:
                res["undecided"].append("check %s did not report its case count" % chk)
            continue
        ok = chk not in fails
        res["functions"].append({"name": chk, "success": ok, "obligations": cases[chk]})
        res["obligations"] += cases[chk]
        if ok:
            res["discharged"] += cases[chk]
        else:
            m = fails[chk]
            cex = {"check": chk, "segs": m.group(2), "codes": m.group(3), "path": m.group(4), "route": m.group(5)}
            res["failures"].append({"id": "%s/%s/case" % (spec["name"], chk), "function": chk,
                                    "message": "%s on path %s with route %s" % (m.group(6).strip(), m.group(4), m.group(5)),
                                    "source": spec.get("source_hint"), "counterexample": cex,
                                    "native_replay": "reproduced"})
    if cases and rc != 0 and not res["failures"]:
        res["undecided"].append("test runner exited with %d without a FAIL line" % rc)
    if res["undecided"]:
        res["status"] = "undecided"
    elif res["failures"]:
        res["status"] = "failed"
    return res


def replay(rep, repo, root, registry_units):
    """re-extract from `repo` and run the one recorded case: 1 = still fails, 0 = passes, 2 = cannot run"""
    spec = next((u for u in registry_units if u["name"] == rep["unit"]), None)
    cex = rep.get("counterexample") or {}
    if spec is None or not cex:
        print("no recorded case")
        return 2
    try:
        spec["prepare"](repo, root)
    except vx.VxError as ex:
        print(str(ex))
        return 2
    only = "%s;%s;%s" % (cex["check"], cex["segs"], cex["codes"])
    rc, out, wall, cmd = _cargo_test(spec, root, None, {"C14SEG_ONLY": only})
    print(cmd)
    for l in out.split("\n"):
        if l.startswith(("FAIL", "CASES")):
            print(l)
    if _rx_fail.search(out):
        print("REPRODUCED on the real (extracted) code: %s" % only)
        return 1
    if _rx_cases.search(out):
        print("not reproduced")
        return 0
    return 2
