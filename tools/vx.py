#!/usr/bin/env python3
"""vx.py -- mechanical extractor: /repo source -> Verus (or Kani) input file.

What is verified must be the text that runs.  This module
  * lexes Rust (comments, nested block comments, strings, raw strings, byte strings, chars vs
    lifetimes) and locates an item by path (e.g. ["impl Ranges", "fn populate_with_count_arg",
    "fn find_value"]);
  * copies the item text verbatim;
  * applies *declared rewrites* (id, pattern, replacement, exact expected count);
  * inserts *annotations* (ghost text only) at positions named in the unit file;
  * audits the result: the annotated text with the inserted spans removed must be
    token-identical to the rewritten source text, and every inserted span must be syntactically
    ghost (contract clauses, invariants, proof blocks, ghost lets, attributes of the verifier);
  * substitutes the result into a template (contracts/<unit>.rs) at `//@@ <name>` markers and
    records a line map generated-line -> (source file, source line).

Any mismatch (item not found / not unique, rewrite count differs, anchor lost, audit failure)
raises VxError; the driver turns that into exit 2 ("undecided: lost anchor"), never an alarm.
"""
import re
import sys
import os
import json

try:
    import tomllib
except ImportError:  # pragma: no cover
    tomllib = None


class VxError(Exception):
    pass


# --------------------------------------------------------------------------------------------
# lexer
# --------------------------------------------------------------------------------------------
class Tok:
    __slots__ = ("kind", "text", "start", "end")

    def __init__(self, kind, text, start, end):
        self.kind, self.text, self.start, self.end = kind, text, start, end

    def __repr__(self):
        return "%s(%r)" % (self.kind, self.text)


_ident_re = re.compile(r"[A-Za-z_][A-Za-z0-9_]*")
_num_re = re.compile(r"[0-9][0-9A-Za-z_]*(\.[0-9][0-9A-Za-z_]*)?([eE][+-]?[0-9_]+)?[A-Za-z0-9_]*")
_punct3 = ("<<=", ">>=", "...", "..=")
_punct2 = ("->", "=>", "::", "==", "!=", "<=", ">=", "&&", "||", "+=", "-=", "*=", "/=", "%=",
           "^=", "&=", "|=", "<<", ">>", "..")


def lex(src, keep_comments=False):
    """Return the token list of `src`.  Whitespace and comments are skipped."""
    toks = []
    i, n = 0, len(src)
    while i < n:
        c = src[i]
        if c.isspace():
            i += 1
            continue
        if src.startswith("//", i):
            j = src.find("\n", i)
            j = n if j < 0 else j
            if keep_comments:
                toks.append(Tok("comment", src[i:j], i, j))
            i = j
            continue
        if src.startswith("/*", i):
            depth, j = 1, i + 2
            while j < n and depth:
                if src.startswith("/*", j):
                    depth += 1
                    j += 2
                elif src.startswith("*/", j):
                    depth -= 1
                    j += 2
                else:
                    j += 1
            if depth:
                raise VxError("unterminated block comment")
            if keep_comments:
                toks.append(Tok("comment", src[i:j], i, j))
            i = j
            continue
        # raw strings r"..", r#".."#, br".."
        m = re.match(r"(b?r)(#*)\"", src[i:i + 40])
        if m:
            hashes = m.group(2)
            close = '"' + hashes
            j = src.find(close, i + len(m.group(0)))
            if j < 0:
                raise VxError("unterminated raw string")
            j += len(close)
            toks.append(Tok("string", src[i:j], i, j))
            i = j
            continue
        if c == '"' or (c == "b" and src.startswith('b"', i)) or (c == "c" and src.startswith('c"', i)):
            j = i + (1 if c == '"' else 2)
            while j < n and src[j] != '"':
                j += 2 if src[j] == "\\" else 1
            if j >= n:
                raise VxError("unterminated string")
            j += 1
            toks.append(Tok("string", src[i:j], i, j))
            i = j
            continue
        if c == "'" or (c == "b" and src.startswith("b'", i)):
            k = i + (1 if c == "'" else 2)
            # char literal or lifetime?
            if k < n and src[k] == "\\":
                j = k + 2
                while j < n and src[j] != "'":
                    j += 1
                j += 1
                toks.append(Tok("char", src[i:j], i, j))
                i = j
                continue
            if k + 1 < n and src[k + 1] == "'" and src[k] != "'":
                toks.append(Tok("char", src[i:k + 2], i, k + 2))
                i = k + 2
                continue
            # multi-byte char literal like 'é' is covered above (python str is code points)
            m = _ident_re.match(src, k)
            if m and c == "'":
                toks.append(Tok("lifetime", src[i:m.end()], i, m.end()))
                i = m.end()
                continue
            raise VxError("cannot lex quote at offset %d" % i)
        m = _ident_re.match(src, i)
        if m:
            # raw identifiers r#name
            toks.append(Tok("ident", m.group(0), i, m.end()))
            i = m.end()
            continue
        if c.isdigit():
            m = _num_re.match(src, i)
            # do not swallow `..` of a range after an integer: 0..5
            text = m.group(0)
            dd = text.find("..")
            if dd >= 0:
                text = text[:dd]
            # `1.foo()`/`0.0` handling: the regexp needs a digit after '.', so tuple.0.1 is fine
            toks.append(Tok("number", text, i, i + len(text)))
            i += len(text)
            continue
        for p in _punct3:
            if src.startswith(p, i):
                toks.append(Tok("punct", p, i, i + 3))
                i += 3
                break
        else:
            for p in _punct2:
                if src.startswith(p, i):
                    toks.append(Tok("punct", p, i, i + 2))
                    i += 2
                    break
            else:
                toks.append(Tok("punct", c, i, i + 1))
                i += 1
    return toks


def tok_texts(src):
    return [t.text for t in lex(src)]


def norm(s):
    """whitespace-insensitive normal form of a header / anchor"""
    return " ".join(tok_texts(s))


_OPEN = {"(": ")", "[": "]", "{": "}"}
_CLOSE = {")": "(", "]": "[", "}": "{"}


def match_close(toks, i):
    """index of the token closing the bracket opened at toks[i]"""
    depth = 0
    for j in range(i, len(toks)):
        t = toks[j]
        if t.kind == "punct":
            if t.text in _OPEN:
                depth += 1
            elif t.text in _CLOSE:
                depth -= 1
                if depth == 0:
                    return j
    raise VxError("unbalanced bracket at token %d (%r)" % (i, toks[i].text))


def next_body_brace(toks, i, hi=None):
    """first `{` at bracket depth 0 at or after token i (skipping (), [] groups and generic
    angle brackets are irrelevant because `{` cannot occur inside them in headers we handle)"""
    hi = len(toks) if hi is None else hi
    depth = 0
    j = i
    while j < hi:
        t = toks[j]
        if t.kind == "punct":
            if t.text in "([":
                depth += 1
            elif t.text in ")]":
                depth -= 1
            elif t.text == "{" and depth == 0:
                return j
            elif t.text == ";" and depth == 0:
                return None
        j += 1
    return None


def loop_body_brace(toks, i, hi=None):
    """body brace of the loop whose keyword is toks[i]; for a `for` loop the pattern (which may contain
    braces: `for S { a, b } in ..`) is skipped up to its `in`"""
    hi = len(toks) if hi is None else hi
    if toks[i].text != "for":
        return next_body_brace(toks, i + 1, hi)
    depth = 0
    j = i + 1
    while j < hi:
        t = toks[j]
        if t.kind == "punct" and t.text in _OPEN:
            depth += 1
        elif t.kind == "punct" and t.text in _CLOSE:
            depth -= 1
            if depth < 0:
                return None
            # a closed `{..}` that is not followed by more pattern was a body (`impl X for Y {..}`), not a pattern
            if depth == 0 and t.text == "}" and (j + 1 >= hi or toks[j + 1].text not in ("in", ",", "|", ")", "]")):
                return None
        elif depth == 0 and t.kind == "punct" and t.text == ";":
            return None
        elif depth == 0 and t.kind == "ident" and t.text == "in":
            return next_body_brace(toks, j + 1, hi)
        j += 1
    return None


# --------------------------------------------------------------------------------------------
# item location
# --------------------------------------------------------------------------------------------
_ITEM_KW = ("fn", "impl", "enum", "struct", "trait", "mod", "type", "const", "static", "macro_rules")
_PREFIX_KW = ("pub", "const", "async", "unsafe", "extern", "default")


def _item_extent(toks, kw_idx, lo):
    """(first_tok, last_tok) of the item whose keyword is at kw_idx; walks back over
    visibility / qualifiers (not over attributes)"""
    s = kw_idx
    while s - 1 >= lo:
        p = toks[s - 1]
        if p.kind == "ident" and p.text in _PREFIX_KW:
            s -= 1
            continue
        if p.kind == "string" and s - 2 >= lo and toks[s - 2].text == "extern":
            s -= 1
            continue
        if p.text == ")" :
            # pub(crate) / pub(super)
            k = s - 1
            while k >= lo and toks[k].text != "(":
                k -= 1
            if k - 1 >= lo and toks[k - 1].text == "pub":
                s = k - 1
                continue
        break
    b = next_body_brace(toks, kw_idx)
    if b is None:
        # `struct X(..);` / `type A = B;` / `struct X;`
        j = kw_idx
        depth = 0
        while j < len(toks):
            t = toks[j]
            if t.kind == "punct":
                if t.text in _OPEN:
                    depth += 1
                elif t.text in _CLOSE:
                    depth -= 1
                elif t.text == ";" and depth == 0:
                    return s, j
            j += 1
        raise VxError("item without end")
    return s, match_close(toks, b)


def _attrs_before(toks, s, lo):
    """extend start backwards over `#[...]` attributes"""
    while s - 1 >= lo and toks[s - 1].text == "]":
        # find matching [
        depth = 0
        k = s - 1
        while k >= lo:
            if toks[k].text == "]":
                depth += 1
            elif toks[k].text == "[":
                depth -= 1
                if depth == 0:
                    break
            k -= 1
        if k - 1 >= lo and toks[k - 1].text == "#":
            s = k - 1
        else:
            break
    return s


def _find_in(toks, lo, hi, spec):
    """all items matching `spec` whose keyword lies in toks[lo:hi]; returns list of
    (first_tok, last_tok, kw_idx)"""
    top_only = spec.startswith("^")     # `^fn f`: only items directly in the searched scope, not nested ones
    if top_only:
        spec = spec[1:]
        depth_of = {}
        d = 0
        for i in range(lo, hi):
            t = toks[i]
            if t.kind == "punct" and t.text in _CLOSE:
                d -= 1
            depth_of[i] = d
            if t.kind == "punct" and t.text in _OPEN:
                d += 1
        return [c for c in _find_in(toks, lo, hi, spec) if depth_of.get(c[2], 1) == 0]
    spec_t = tok_texts(spec)
    kw = spec_t[0]
    out = []
    if kw == "macro_rules":
        name = spec_t[-1]
        for i in range(lo, hi - 2):
            if toks[i].text == "macro_rules" and toks[i + 1].text == "!" and toks[i + 2].text == name:
                b = i + 3
                e = match_close(toks, b)
                if e + 1 < len(toks) and toks[e + 1].text == ";":
                    e += 1
                out.append((i, e, i))
        return out
    if kw not in _ITEM_KW:
        raise VxError("bad path element %r" % spec)
    for i in range(lo, hi):
        t = toks[i]
        if t.kind != "ident" or t.text != kw:
            continue
        if kw == "impl":
            b = next_body_brace(toks, i)
            if b is None:
                continue
            # `impl Trait` in argument position has no body brace right after at depth 0 ... it
            # would find the fn body; reject if a `fn`-like paren precedes: require header match
            header = [x.text for x in toks[i:b]]
            # strip where clause for matching
            if "where" in header:
                header = header[:header.index("where")]
            if header == spec_t:
                s, e = _item_extent(toks, i, lo)
                out.append((s, e, i))
        elif kw == "fn":
            if i + 1 < hi and toks[i + 1].text == spec_t[1]:
                # function pointer types `fn(..)` have no name, so this is an item
                s, e = _item_extent(toks, i, lo)
                out.append((s, e, i))
        else:
            if i + 1 < hi and toks[i + 1].text == spec_t[1]:
                # avoid `Self::type`, `.type` etc.
                if i > 0 and toks[i - 1].text in (".", "::"):
                    continue
                s, e = _item_extent(toks, i, lo)
                out.append((s, e, i))
    return out


def locate(src, path, with_attrs=False):
    """(start_offset, end_offset) of the unique item named by `path` in `src`"""
    toks = lex(src)
    cands = [(0, len(toks) - 1, 0)]
    for depth, spec in enumerate(path):
        nxt = []
        for (s, e, kw) in cands:
            if depth == 0:
                lo, hi = 0, len(toks)
            else:
                b = next_body_brace(toks, kw)
                if b is None:
                    continue
                lo, hi = b + 1, e
            for c in _find_in(toks, lo, hi, spec):
                nxt.append(c)
        if not nxt:
            raise VxError("lost anchor: %r not found (path %r)" % (spec, path))
        cands = nxt
    # nested matches of the same fn (an inner fn found both via outer scan): dedupe
    cands = sorted(set(cands))
    if len(cands) != 1:
        raise VxError("lost anchor: path %r matches %d items" % (path, len(cands)))
    s, e, _ = cands[0]
    if with_attrs:
        s = _attrs_before(toks, s, 0)
    return toks[s].start, toks[e].end


def list_impl_fns(repo, file, path):
    """[(fn_name, receiver, returns_self)] for every fn directly inside the impl block(s) `path`"""
    fpath = os.path.join(repo, file)
    try:
        src = open(fpath, encoding="utf-8").read()
    except OSError as e:
        raise VxError("lost anchor: cannot read %s: %s" % (file, e))
    toks = lex(src)
    blocks = _find_in(toks, 0, len(toks), path[0])
    if not blocks:
        raise VxError("lost anchor: %r not found" % path[0])
    out = []
    for (s0, e0, kw) in blocks:
        b = next_body_brace(toks, kw)
        i = b + 1
        depth = 0
        while i < e0:
            t = toks[i]
            if t.kind == "punct" and t.text in _OPEN:
                depth += 1
            elif t.kind == "punct" and t.text in _CLOSE:
                depth -= 1
            elif depth == 0 and t.kind == "ident" and t.text == "fn" and toks[i + 1].kind == "ident":
                name = toks[i + 1].text
                # receiver: tokens up to the first `,` or `)` of the parameter list
                j = i + 2
                while toks[j].text != "(":
                    j += 1
                close = match_close(toks, j)
                first = []
                k = j + 1
                while k < close and toks[k].text != ",":
                    first.append(toks[k].text)
                    k += 1
                recv = " ".join(first)
                recv = {"& mut self": "&mut self", "& self": "&self"}.get(recv, recv)
                if "self" not in first:
                    recv = ""
                body = next_body_brace(toks, close)
                sig = [x.text for x in toks[close:body]] if body else []
                returns_self = (recv == "" and "->" in sig and ("Self" in sig or path[0].split()[-1] in sig))
                out.append((name, recv, returns_self))
            i += 1
    return out


# --------------------------------------------------------------------------------------------
# rewrites
# --------------------------------------------------------------------------------------------
def _rewrite_m1(text, rw):
    """M1 token macros.  `quote!( .. #a .. #b .. )` -> `<fn>((&a, &b))`;
    `format_ident!("fmt", e1, e2)` -> `<fn>((e1, e2))`.  The macro call becomes one call of an opaque
    total function over the expressions it interpolates; those expressions stay and are checked."""
    name, fn, mode = rw["macro"], rw["fn"], rw.get("mode", "quote")
    toks = lex(text)
    out, cur, n = [], 0, 0
    i = 0
    while i < len(toks) - 2:
        if toks[i].kind == "ident" and toks[i].text == name and toks[i + 1].text == "!" and toks[i + 2].text in _OPEN:
            close = match_close(toks, i + 2)
            inner = toks[i + 3:close]
            if mode == "quote":
                args = []
                for j, t in enumerate(inner):
                    if t.text == "#" and j + 1 < len(inner) and inner[j + 1].kind == "ident":
                        if inner[j + 1].text not in args:
                            args.append(inner[j + 1].text)
                    if t.text == "#" and j + 1 < len(inner) and inner[j + 1].text == "(":
                        raise VxError("M1: repetition #(..)* in %s! is not handled" % name)
                rep = "%s((%s))" % (fn, "".join("&%s, " % a for a in args))
            else:
                # drop the first argument (the format string literal), keep the rest verbatim
                d = 0
                first_comma = None
                for j, t in enumerate(inner):
                    if t.kind == "punct" and t.text in _OPEN:
                        d += 1
                    elif t.kind == "punct" and t.text in _CLOSE:
                        d -= 1
                    elif t.text == "," and d == 0:
                        first_comma = j
                        break
                if first_comma is None or first_comma + 1 >= len(inner):
                    rest = ""
                else:
                    rest = text[inner[first_comma + 1].start:inner[-1].end]
                rep = "%s((%s,))" % (fn, rest) if rest else "%s(())" % fn
            out.append(text[cur:toks[i].start])
            out.append(rep)
            cur = toks[close].end
            n += 1
            i = close + 1
            continue
        i += 1
    out.append(text[cur:])
    return "".join(out), n


def _rewrite_hoist(text, rw):
    """N1 nested-fn hoisting: a `fn` item nested in the function body is removed from the text (fn items
    capture nothing, so hoisting to module level does not change meaning); the contract file supplies the
    item at module level (as a contract proved in another unit, or as an assumed one)."""
    name = rw["hoist_fn"]
    toks = lex(text)
    hits = []
    # skip the outermost fn (token 0..): search inside its body only
    fn_i, b = _fn_sig(toks)
    e = match_close(toks, b)
    for (s0, e0, kw) in _find_in(toks, b + 1, e, "fn " + name):
        hits.append((s0, e0))
    if len(hits) != 1:
        return text, len(hits)
    s0, e0 = hits[0]
    return text[:toks[s0].start] + text[toks[e0].end:], 1


def _rewrite_k1(text):
    """K1: in the body of a `for` loop, a top-level statement `if COND { continue; }` followed by the statements
    REST up to the end of the body becomes `if COND { } else { REST }` (`continue` skips the rest of the body, so
    the control flow is the same).  Applies to every such statement of every unlabelled `for` loop of the text;
    any other `continue` (in a match arm, nested deeper, labelled) is left alone.  Returns (text, count)."""
    count = 0
    while True:
        toks = lex(text)
        done = True
        for li in _loops(toks, 0, len(toks)):
            if toks[li].text != "for":
                continue
            lb = loop_body_brace(toks, li, len(toks))
            if lb is None:
                continue
            le = match_close(toks, lb)
            # walk the top-level statements of the body
            i = lb + 1
            while i < le:
                t = toks[i]
                if t.kind == "ident" and t.text == "if":
                    tb = next_body_brace(toks, i + 1, le)
                    if tb is None:
                        break
                    te = match_close(toks, tb)
                    inner = [x.text for x in toks[tb + 1:te]]
                    if inner == ["continue", ";"] and (te + 1 >= le or toks[te + 1].text != "else"):
                        rest_start = toks[te].end
                        rest_end = toks[le].start
                        text = (text[:toks[tb].end] + " " + text[toks[te].start:toks[te].end] + " else {" +
                                text[rest_start:rest_end] + "}\n" + text[rest_end:])
                        count += 1
                        done = False
                        break
                    # skip the whole if / else-if chain
                    i = te + 1
                    while i < le and toks[i].text == "else":
                        nb = next_body_brace(toks, i + 1, le)
                        if nb is None:
                            break
                        i = match_close(toks, nb) + 1
                    continue
                if t.kind == "punct" and t.text in _OPEN:
                    i = match_close(toks, i) + 1
                    continue
                i += 1
            if not done:
                break
        if done:
            return text, count


def apply_rewrites(text, rewrites, log):
    for rw in rewrites or []:
        if rw.get("continue_guard"):
            new, n = _rewrite_k1(text)
            if n != rw.get("count", 1) and rw.get("count", 1) != -1:
                raise VxError("lost anchor: rewrite K1 `if c { continue; }` matched %d times, expected %d"
                              % (n, rw.get("count", 1)))
            log.append({"id": rw.get("id", "K1"), "pattern": "if COND { continue; } REST  (top level of a for body)",
                        "replace": "if COND { } else { REST }", "count": n, "why": rw.get("why", "")})
            text = new
            continue
        if rw.get("hoist_fn"):
            new, n = _rewrite_hoist(text, rw)
            if n != 1:
                raise VxError("lost anchor: rewrite N1 nested fn %s found %d times" % (rw["hoist_fn"], n))
            log.append({"id": rw.get("id", "N1"), "pattern": "nested fn " + rw["hoist_fn"], "replace": "(hoisted)",
                        "count": 1, "why": rw.get("why", "")})
            text = new
            continue
        if rw.get("macro"):
            new, n = _rewrite_m1(text, rw)
            if n != rw.get("count", 1) and rw.get("count", 1) != -1:
                raise VxError("lost anchor: rewrite %s macro %s! matched %d times, expected %d"
                              % (rw.get("id", "M1"), rw["macro"], n, rw.get("count", 1)))
            log.append({"id": rw.get("id", "M1"), "pattern": rw["macro"] + "!(..)", "replace": rw["fn"] + "((..))",
                        "count": n, "why": rw.get("why", "")})
            text = new
            continue
        pat = rw["pattern"]
        rep = rw.get("replace", "")
        want = rw.get("count", 1)
        if rw.get("regex"):
            rx = re.compile(pat, re.S | re.M)
            new, n = rx.subn(rep, text)
        else:
            n = text.count(pat)
            new = text.replace(pat, rep)
        if n != want and want != -1:
            raise VxError("lost anchor: rewrite %s %r matched %d times, expected %d"
                          % (rw.get("id", "?"), pat, n, want))
        log.append({"id": rw.get("id", "?"), "pattern": pat, "replace": rep, "count": n,
                    "why": rw.get("why", "")})
        text = new
    return text


# --------------------------------------------------------------------------------------------
# annotations
# --------------------------------------------------------------------------------------------
_CONTRACT_KW = ("requires", "ensures", "decreases", "recommends", "returns", "no_unwind", "opens_invariants")
_LOOP_KW = ("invariant", "invariant_except_break", "ensures", "decreases")
_GHOST_STMT_KW = ("proof", "broadcast", "assert", "reveal", "reveal_with_fuel", "assume")


def _check_ghost(kind, text):
    ts = lex(text)
    if not ts:
        raise VxError("audit: empty annotation")
    # balanced
    depth = 0
    for t in ts:
        if t.kind == "punct" and t.text in _OPEN:
            depth += 1
        elif t.kind == "punct" and t.text in _CLOSE:
            depth -= 1
            if depth < 0:
                raise VxError("audit: unbalanced annotation %r" % text[:60])
    if depth:
        raise VxError("audit: unbalanced annotation %r" % text[:60])
    if kind == "contract":
        if ts[0].text not in _CONTRACT_KW:
            raise VxError("audit: contract must start with requires/ensures/decreases: %r" % text[:60])
    elif kind == "loop":
        if ts[0].text not in _LOOP_KW:
            raise VxError("audit: loop annotation must start with invariant/decreases: %r" % text[:60])
    elif kind == "attr":
        if not (ts[0].text == "#" and ts[1].text == "[" and ts[2].text == "verifier"):
            raise VxError("audit: only #[verifier::..] attributes may be inserted: %r" % text[:60])
    elif kind == "ghost":
        # a sequence of statements each starting with proof{..} | let ghost | let tracked | ...
        i = 0
        while i < len(ts):
            t = ts[i]
            if t.text == "let":
                if not (i + 1 < len(ts) and ts[i + 1].text in ("ghost", "tracked")):
                    raise VxError("audit: inserted `let` is not ghost: %r" % text[:60])
                # to the `;` at depth 0
                d = 0
                while i < len(ts):
                    x = ts[i]
                    if x.kind == "punct" and x.text in _OPEN:
                        d += 1
                    elif x.kind == "punct" and x.text in _CLOSE:
                        d -= 1
                    elif x.text == ";" and d == 0:
                        break
                    i += 1
                i += 1
            elif t.text in _GHOST_STMT_KW:
                # proof { .. } or stmt ;
                d = 0
                started = False
                while i < len(ts):
                    x = ts[i]
                    if x.kind == "punct" and x.text in _OPEN:
                        d += 1
                        started = True
                    elif x.kind == "punct" and x.text in _CLOSE:
                        d -= 1
                        if d == 0 and t.text == "proof" and x.text == "}":
                            break
                    elif x.text == ";" and d == 0:
                        break
                    i += 1
                i += 1
            else:
                raise VxError("audit: inserted statement is not ghost: %r" % text[:60])
    else:
        raise VxError("audit: unknown annotation kind %r" % kind)


def _fn_sig(ts):
    """(fn_kw_idx, body_open_idx) of the outermost fn in the token list"""
    for i, t in enumerate(ts):
        if t.kind == "ident" and t.text == "fn":
            b = next_body_brace(ts, i)
            if b is None:
                raise VxError("fn without body")
            return i, b
    raise VxError("no fn in extracted text")


def _loops(ts, lo, hi):
    """indices of loop keywords in token order inside ts[lo:hi]"""
    out = []
    for i in range(lo, hi):
        t = ts[i]
        if t.kind != "ident":
            continue
        if t.text in ("while", "loop"):
            out.append(i)
        elif t.text == "for":
            # exclude HRTB `for<'a>` and `impl X for Y`
            if i + 1 < hi and ts[i + 1].text == "<":
                continue
            # must have an `in` before the body brace
            if loop_body_brace(ts, i, hi) is not None:
                out.append(i)
    return out


def _block_end_pos(ts, tb, te):
    """offset at which a statement can be appended to the block ts[tb]..ts[te]: before the closing brace,
    or -- when the block ends in a tail expression -- before that expression"""
    last_stmt_end = tb
    depth = 0
    i = tb + 1
    while i < te:
        t = ts[i]
        if t.kind == "punct" and t.text in _OPEN:
            j = match_close(ts, i)
            # a `{..}` block at statement level ends a statement when not followed by an operator / method call
            if t.text == "{" and depth == 0 and j + 1 <= te and ts[j + 1].text not in (".", "?", ";", ",", "else", "as"):
                last_stmt_end = j
            i = j + 1
            continue
        if t.text == ";" and depth == 0:
            last_stmt_end = i
        i += 1
    if last_stmt_end == te - 1 or ts[te - 1].text in (";",):
        return ts[te].start
    # there are tokens after the last statement end: a tail expression
    return ts[last_stmt_end].end


def annotate(text, annots):
    """returns (annotated_text, inserted_spans) ; spans are (start, end, kind) in the new text"""
    ts = lex(text)
    ins = []  # (offset_in_text, insert_text, kind, order)
    order = 0
    for a in annots or []:
        kind = a["kind"]
        order += 1
        if kind == "ret":
            fn_i, b = _fn_sig(ts)
            arrow = None
            d = 0
            for j in range(fn_i, b):
                x = ts[j]
                if x.kind == "punct" and x.text in "([":
                    d += 1
                elif x.kind == "punct" and x.text in ")]":
                    d -= 1
                elif x.text == "->" and d == 0:
                    arrow = j
            if arrow is None:
                raise VxError("lost anchor: no return type to name")
            end = b
            for j in range(arrow, b):
                if ts[j].text == "where":
                    end = j
                    break
            ins.append((ts[arrow + 1].start, "(" + a["name"] + ": ", "retname", order))
            ins.append((ts[end - 1].end, ")", "retname", order))
        elif kind == "contract":
            _check_ghost("contract", a["text"])
            fn_i, b = _fn_sig(ts)
            ins.append((ts[b].start, "\n" + a["text"].rstrip() + "\n", "contract", order))
        elif kind == "attr":
            _check_ghost("attr", a["text"])
            ins.append((0, a["text"].rstrip() + "\n", "attr", order))
        elif kind == "loop":
            _check_ghost("loop", a["text"])
            fn_i, b = _fn_sig(ts)
            e = match_close(ts, b)
            loops = _loops(ts, b + 1, e)
            k = a["ordinal"]
            if k >= len(loops):
                raise VxError("lost anchor: loop ordinal %d, function has %d loops" % (k, len(loops)))
            want_kw = a.get("keyword")
            if want_kw and ts[loops[k]].text != want_kw:
                raise VxError("lost anchor: loop %d is `%s`, expected `%s`" % (k, ts[loops[k]].text, want_kw))
            lb = loop_body_brace(ts, loops[k], e)
            if lb is None:
                raise VxError("lost anchor: loop body")
            if a.get("iter"):
                if ts[loops[k]].text != "for":
                    raise VxError("lost anchor: iter name on non-for loop")
                d = 0
                pos = None
                for j in range(loops[k], lb):
                    x = ts[j]
                    if x.kind == "punct" and x.text in "([":
                        d += 1
                    elif x.kind == "punct" and x.text in ")]":
                        d -= 1
                    elif x.kind == "ident" and x.text == "in" and d == 0:
                        pos = j
                        break
                ins.append((ts[pos + 1].start, a["iter"] + ": ", "itername", order))
            ins.append((ts[lb].start, "\n" + a["text"].rstrip() + "\n", "loop", order))
        elif kind == "closure":
            # C1 closure contract: `|x| body` -> `|x: T| -> (r: R) requires .. ensures .. { body }`.
            # Inserted: parameter type ascriptions, a named return type, contract clauses and the braces that
            # Verus' closure-spec syntax needs.  None of it has runtime meaning; the audit strips all of it.
            _check_ghost("contract", a["contract"])
            anchor = tok_texts(a["anchor"])
            all_t = [t.text for t in ts]
            hits = [i for i in range(len(all_t) - len(anchor) + 1) if all_t[i:i + len(anchor)] == anchor]
            if len(hits) != 1:
                raise VxError("lost anchor: closure %r occurs %d times" % (a["anchor"], len(hits)))
            h = hits[0]
            if ts[h].text == "move":
                h += 1
            if ts[h].text != "|":
                raise VxError("lost anchor: closure anchor must start with `|`")
            # closing bar of the parameter list
            j = h + 1
            while ts[j].text != "|":
                j += 1
            for pname, pty in (a.get("params") or {}).items():
                k = [x for x in range(h + 1, j) if ts[x].text == pname]
                if len(k) != 1:
                    raise VxError("lost anchor: closure parameter %r" % pname)
                ins.append((ts[k[0]].end, ": " + pty, "closure", order))
            ins.append((ts[j].end, " -> " + a["ret"] + "\n" + a["contract"].rstrip() + "\n{ ", "closure", order))
            ins.append((ts[hits[0] + len(anchor) - 1].end, " }", "closure", order))
        elif kind == "ghost" and a.get("at"):
            # structural anchors: survive renames and statement reordering inside the function
            _check_ghost("ghost", a["text"])
            fn_i, b = _fn_sig(ts)
            e = match_close(ts, b)
            at = a["at"]
            if at == "body_start":
                ins.append((ts[b].end, "\n" + a["text"].rstrip() + "\n", "ghost", order))
            elif at == "body_end":
                # after the last statement of the body (before its tail expression, if it has one)
                ins.append((_block_end_pos(ts, b, e), "\n" + a["text"].rstrip() + "\n", "ghost", order))
            elif at == "match_arm_end":
                # end of the block of the k-th arm of the n-th `match` of the body (arms with `{}` blocks only)
                ms = [x for x in range(b + 1, e) if ts[x].kind == "ident" and ts[x].text == "match"]
                n = a.get("match", 0)
                if n >= len(ms):
                    raise VxError("lost anchor: match ordinal %d, function has %d" % (n, len(ms)))
                mb = next_body_brace(ts, ms[n] + 1, e)
                me = match_close(ts, mb)
                arms = []
                x = mb + 1
                while x < me:
                    t = ts[x]
                    if t.kind == "punct" and t.text in _OPEN:
                        x = match_close(ts, x) + 1
                        continue
                    if t.text == "=>":
                        if ts[x + 1].text == "{":
                            ae = match_close(ts, x + 1)
                            arms.append((x + 1, ae))
                            x = ae + 1
                            continue
                        arms.append(None)
                    x += 1
                k = a.get("ordinal", 0)
                if k >= len(arms) or arms[k] is None:
                    raise VxError("lost anchor: match arm %d (of %d) has no block" % (k, len(arms)))
                ins.append((_block_end_pos(ts, arms[k][0], arms[k][1]), "\n" + a["text"].rstrip() + "\n", "ghost", order))
            elif at == "if_branch_end":
                # end of the then-block (branch 0) / else-block (branch 1) of the k-th `if` of the body
                ifs = [x for x in range(b + 1, e) if ts[x].kind == "ident" and ts[x].text == "if"
                       and ts[x - 1].text != "else"]
                k = a.get("ordinal", 0)
                if k >= len(ifs):
                    raise VxError("lost anchor: if ordinal %d, function has %d ifs" % (k, len(ifs)))
                tb = next_body_brace(ts, ifs[k] + 1, e)
                te = match_close(ts, tb)
                if a.get("branch", 0) != 0:
                    if ts[te + 1].text != "else" or ts[te + 2].text != "{":
                        raise VxError("lost anchor: if %d has no plain else block" % k)
                    tb = te + 2
                    te = match_close(ts, tb)
                if a.get("pos", "end") == "start":
                    ins.append((ts[tb].end, "\n" + a["text"].rstrip() + "\n", "ghost", order))
                else:
                    ins.append((_block_end_pos(ts, tb, te), "\n" + a["text"].rstrip() + "\n", "ghost", order))
            else:
                loops = _loops(ts, b + 1, e)
                k = a.get("ordinal", 0)
                if k >= len(loops):
                    raise VxError("lost anchor: loop ordinal %d, function has %d loops" % (k, len(loops)))
                lb = loop_body_brace(ts, loops[k], e)
                le = match_close(ts, lb)
                if at == "loop_start":
                    ins.append((ts[lb].end, "\n" + a["text"].rstrip() + "\n", "ghost", order))
                elif at == "loop_end":
                    ins.append((ts[le].start, "\n" + a["text"].rstrip() + "\n", "ghost", order))
                elif at == "before_loop":
                    # before the statement that contains the loop keyword (labels / `let x =` excluded: the
                    # loops handled here are statements of their own)
                    ins.append((ts[loops[k]].start, a["text"].rstrip() + "\n", "ghost", order))
                elif at == "after_loop":
                    ins.append((ts[le].end, "\n" + a["text"].rstrip() + "\n", "ghost", order))
                else:
                    raise VxError("unknown structural anchor %r" % at)
        elif kind == "ghost":
            _check_ghost("ghost", a["text"])
            anchor = tok_texts(a["anchor"])
            all_t = [t.text for t in ts]
            hits = [i for i in range(len(all_t) - len(anchor) + 1) if all_t[i:i + len(anchor)] == anchor]
            want = a.get("occurrence")
            if want is None:
                if len(hits) != 1:
                    raise VxError("lost anchor: %r occurs %d times" % (a["anchor"], len(hits)))
                h = hits[0]
            else:
                if want >= len(hits) or len(hits) != a.get("of", len(hits)):
                    raise VxError("lost anchor: %r occurs %d times" % (a["anchor"], len(hits)))
                h = hits[want]
            if a.get("where", "after") == "before":
                ins.append((ts[h].start, a["text"].rstrip() + "\n", "ghost", order))
            else:
                ins.append((ts[h + len(anchor) - 1].end, "\n" + a["text"].rstrip() + "\n", "ghost", order))
        else:
            raise VxError("unknown annotation kind %r" % kind)
    ins.sort(key=lambda x: (x[0], x[3]))
    out = []
    spans = []
    cur = 0
    pos = 0
    for off, s, kind, _ in ins:
        out.append(text[cur:off])
        pos += off - cur
        cur = off
        out.append(s)
        spans.append((pos, pos + len(s), kind))
        pos += len(s)
    out.append(text[cur:])
    return "".join(out), spans


def audit(rewritten, annotated, spans):
    """annotated minus inserted spans must be token-identical to rewritten"""
    keep = []
    cur = 0
    for s, e, _ in spans:
        keep.append(annotated[cur:s])
        cur = e
    keep.append(annotated[cur:])
    stripped = "".join(keep)
    a, b = tok_texts(stripped), tok_texts(rewritten)
    if a != b:
        raise VxError("audit: stripped annotated text differs from rewritten source")
    return len(a)


# --------------------------------------------------------------------------------------------
# unit assembly
# --------------------------------------------------------------------------------------------
def load_unit(path):
    with open(path, "rb") as f:
        return tomllib.load(f)


def _locate_if_block(src, s, e, anchor):
    """E3 statement lift: the `if .. {..} else ..` statement starting with the token sequence `anchor`
    inside src[s:e]; returns absolute (start, end) offsets"""
    sub = src[s:e]
    toks = lex(sub)
    at = tok_texts(anchor)
    texts = [t.text for t in toks]
    hits = [i for i in range(len(texts) - len(at) + 1) if texts[i:i + len(at)] == at]
    if len(hits) != 1 or texts[hits[0]] != "if":
        raise VxError("lost anchor: statement %r occurs %d times" % (anchor, len(hits)))
    i = hits[0]
    while True:
        b = next_body_brace(toks, i + 1)
        if b is None:
            raise VxError("lost anchor: if without block")
        c = match_close(toks, b)
        if c + 1 < len(toks) and toks[c + 1].text == "else":
            if toks[c + 2].text == "if":
                i = c + 2
                continue
            c = match_close(toks, c + 2)
        return s + toks[hits[0]].start, s + toks[c].end


def _locate_stmt_range(src, s, e, start_anchor, end_anchor, to_semicolon=False):
    """E3 statement-range lift: from the first token of `start_anchor` to the last token of the first
    occurrence of `end_anchor` after it (both must be unique / present); absolute offsets"""
    sub = src[s:e]
    toks = lex(sub)
    texts = [t.text for t in toks]
    a = tok_texts(start_anchor)
    b = tok_texts(end_anchor)
    hits = [i for i in range(len(texts) - len(a) + 1) if texts[i:i + len(a)] == a]
    if len(hits) != 1:
        raise VxError("lost anchor: statement %r occurs %d times" % (start_anchor, len(hits)))
    ends = [i for i in range(hits[0], len(texts) - len(b) + 1) if texts[i:i + len(b)] == b]
    if not ends:
        raise VxError("lost anchor: end statement %r not found" % end_anchor)
    if to_semicolon:
        # `end_anchor` is the beginning of the last statement: the range runs to that statement's `;`
        j = ends[0] + len(b)
        depth = 0
        while j < len(toks):
            t = toks[j]
            if t.kind == "punct" and t.text in _OPEN:
                depth += 1
            elif t.kind == "punct" and t.text in _CLOSE:
                depth -= 1
            elif t.text == ";" and depth <= 0:
                break
            j += 1
        if j >= len(toks):
            raise VxError("lost anchor: end statement %r has no terminating `;`" % end_anchor)
        b = texts[ends[0]:j + 1]
    # braces must balance inside the range
    depth = 0
    for t in toks[hits[0]:ends[0] + len(b)]:
        if t.kind == "punct" and t.text in _OPEN:
            depth += 1
        elif t.kind == "punct" and t.text in _CLOSE:
            depth -= 1
            if depth < 0:
                raise VxError("lost anchor: statement range is not balanced")
    if depth != 0:
        raise VxError("lost anchor: statement range is not balanced")
    return s + toks[hits[0]].start, s + toks[ends[0] + len(b) - 1].end


def extract_one(repo, ex, report):
    fpath = os.path.join(repo, ex["file"])
    try:
        src = open(fpath, encoding="utf-8").read()
    except OSError as e:
        raise VxError("lost anchor: cannot read %s: %s" % (ex["file"], e))
    s, e = locate(src, ex["path"], with_attrs=ex.get("with_attrs", False))
    if ex.get("kind") == "block":
        if ex.get("until"):
            s, e = _locate_stmt_range(src, s, e, ex["statement"], ex["until"], ex.get("until_to_semicolon", False))
        else:
            s, e = _locate_if_block(src, s, e, ex["statement"])
        raw = ex["wrap_head"] + " {\n        " + (ex["wrap_pre"] + "\n        " if ex.get("wrap_pre") else "") + src[s:e] + "\n" + ("        " + ex["wrap_tail"] + "\n" if ex.get("wrap_tail") else "") + "}"
        # the wrapper (signature line and braces) is declared text, the statement is verbatim
        src = src[:s] + raw + src[e:]
        e = s + len(raw)
    raw = src[s:e]
    start_line = src.count("\n", 0, s) + 1
    rlog = []
    rewritten = apply_rewrites(raw, ex.get("rewrite"), rlog)
    annotated, spans = annotate(rewritten, ex.get("annot"))
    ntok = audit(rewritten, annotated, spans)
    # line map: annotated line -> source line (None for inserted-only lines)
    linemap = []
    span_i = 0
    # offset->is_inserted
    ins_mask = bytearray(len(annotated))
    for s2, e2, _ in spans:
        for k in range(s2, e2):
            ins_mask[k] = 1
    src_line = start_line
    off = 0
    for line in annotated.split("\n"):
        seg = range(off, off + len(line))
        orig_chars = [k for k in seg if not ins_mask[k] and not annotated[k].isspace()]
        linemap.append(src_line if orig_chars else None)
        # a newline that belongs to the original text advances the source line
        nl = off + len(line)
        if nl < len(annotated) and not ins_mask[nl]:
            src_line += 1
        off = nl + 1
    report.append({
        "name": ex["name"], "file": ex["file"], "path": ex["path"],
        "source_lines": [start_line, start_line + raw.count("\n")],
        "rewrites": rlog, "annotations": len(ex.get("annot") or []),
        "audit": "ok: %d tokens identical after stripping %d inserted spans" % (ntok, len(spans)),
    })
    return annotated, linemap, raw


def build_unit(repo, unit, verif_root, twin=False):
    """returns (generated_text, genmap, report).  genmap[i] = (extract_name, file, src_line) | None
    for generated line i+1."""
    tpath = os.path.join(verif_root, unit["template"])
    template = open(tpath, encoding="utf-8").read()

    def _inc(m):
        return open(os.path.join(os.path.dirname(tpath), m.group(1)), encoding="utf-8").read()
    template = re.sub(r"^[ \t]*//@INCLUDE[ \t]+(\S+)[ \t]*$", _inc, template, flags=re.M)
    report = []
    pieces = {}
    extracts = list(unit.get("extract", []))
    unit["_default_contract_fns"] = []
    for ia in unit.get("impl_all", []):
        # data-structure invariant: EVERY method of the impl block is put under contract.  Methods that
        # have an [[extract]] entry keep it; any other method (e.g. one added later) gets the default
        # contract for its receiver kind, so that a new operation cannot silently break the invariant.
        known = {e["path"][-1].split()[-1] for e in extracts
                 if e.get("file") == ia["file"] and e["path"][:-1] == ia["path"]}
        names = list_impl_fns(repo, ia["file"], ia["path"])
        extra = []
        for fname, recv, returns_self in names:
            if fname in known:
                continue
            ann = []
            if returns_self:
                ann.append({"kind": "ret", "name": "r"})
                c = ia.get("contract_ctor", "")
            elif recv == "&mut self":
                c = ia.get("contract_mut", "")
            elif recv in ("&self", "self", "mut self"):
                c = ia.get("contract_ref", "")
            else:
                c = ia.get("contract_static", "")
            if c.strip():
                ann.append({"kind": "contract", "text": c})
            extra.append({"name": ia["name"] + "__" + fname, "file": ia["file"], "path": ia["path"] + ["fn " + fname],
                          "rewrite": ia.get("rewrite", []), "annot": ann, "_default": True})
            unit["_default_contract_fns"].append(fname)
        extracts += extra
        pieces[ia["name"]] = ({"file": ia["file"]}, None, None, None)
        ia["_members"] = [e["name"] for e in extra]
    for ex in extracts:
        ex = dict(ex)
        text, lmap, raw = extract_one(repo, ex, report)
        if twin and ex.get("twin", True) and ex.get("kind", "fn") == "fn":
            # vacuity twin: a renamed copy of the function with `ensures false` appended, placed
            # right after the original (callers / recursive calls still see the real contract)
            ex2 = dict(ex)
            ann = list(ex.get("annot") or [])
            if not _has_contract(ann):
                ann.append({"kind": "contract", "text": "ensures false,"})
            else:
                ann = _twin_annots(ann)
            ex2["annot"] = ann
            fname = ex["path"][-1].split()[-1]
            rw = list(ex.get("rewrite") or [])
            rw.append({"id": "TWIN", "regex": True, "pattern": r"\bfn\s+%s\b" % re.escape(fname),
                       "replace": "fn %s__twin" % fname, "count": 1})
            ex2["rewrite"] = rw
            t2, l2, _ = extract_one(repo, ex2, [])
            text = text + "\n" + t2
            lmap = lmap + l2
        pieces[ex["name"]] = (ex, text, lmap, raw)
    out_lines = []
    genmap = []
    used = set()
    for line in template.split("\n"):
        m = re.match(r"\s*//@@\s*([A-Za-z0-9_]+)\s*$", line)
        if m:
            name = m.group(1)
            if name not in pieces:
                raise VxError("template names unknown extract %r" % name)
            used.add(name)
            ex, text, lmap, _raw = pieces[name]
            if text is None:
                # impl_all marker: all default-contract members of that impl block
                for ia in unit.get("impl_all", []):
                    if ia["name"] == name:
                        for mname in ia["_members"]:
                            used.add(mname)
                            mex, mtext, mlmap, _ = pieces[mname]
                            for k, l in enumerate(mtext.split("\n")):
                                out_lines.append(l)
                                genmap.append((mname, mex["file"], mlmap[k]) if k < len(mlmap) else None)
                continue
            for k, l in enumerate(text.split("\n")):
                out_lines.append(l)
                genmap.append((name, ex["file"], lmap[k]) if k < len(lmap) else None)
        else:
            out_lines.append(line)
            genmap.append(None)
    missing = set(pieces) - used
    if missing:
        raise VxError("extracts not placed in template: %s" % sorted(missing))
    return "\n".join(out_lines), genmap, report


def _has_contract(ann):
    return any(a["kind"] == "contract" for a in ann)


def _twin_annots(ann):
    """vacuity twin: append `ensures false` to the (last) contract annotation"""
    out = []
    done = False
    for a in reversed(ann):
        if a["kind"] == "contract" and not done:
            a = dict(a)
            txt = a["text"].rstrip()
            if not txt.endswith(","):
                txt += ","
            if re.search(r"\bensures\b", txt):
                # add another ensures clause after the last one but before `decreases`
                m = re.search(r"\bdecreases\b", txt)
                if m and m.start() > txt.rfind("ensures"):
                    txt = txt[:m.start()] + " false,\n" + txt[m.start():]
                else:
                    txt += " false,"
            else:
                m = re.search(r"\bdecreases\b", txt)
                if m:
                    txt = txt[:m.start()] + "ensures false,\n" + txt[m.start():]
                else:
                    txt += "\nensures false,"
            a["text"] = txt
            done = True
        out.append(a)
    return list(reversed(out))


if __name__ == "__main__":
    # debugging aid: vx.py <unit.toml> [--twin]   prints the generated file
    unit = load_unit(sys.argv[1])
    root = os.path.dirname(os.path.dirname(os.path.abspath(__file__)))
    text, genmap, report = build_unit(os.environ.get("VERIF_REPO", "/repo"), unit, root,
                                      twin="--twin" in sys.argv)
    sys.stdout.write(text)
    sys.stderr.write(json.dumps(report, indent=1) + "\n")
